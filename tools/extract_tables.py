#!/usr/bin/env python3
"""Translator: regenerates lean/JoinModel/Tables.lean from the current /repo sources.

Two sources, both the *current* tree:
  * anchored text patterns in the Rust files (token tests of the determiner table, operand arity,
    option loop, macro-kind table, name formats, handler keywords);
  * the answers of the running code (harness `tables`, which links /repo/join_impl): wrapper set,
    err set, emission templates, hoistable set, wrapper constructors.
Fails loudly (exit 3, message on stderr) when a pattern it relies on is gone: that is a broken tie.
Prints a JSON summary (hashes of the source regions) on stdout.
"""
import hashlib
import json
import os
import re
import subprocess
import sys

REPO = os.environ.get("VERIF_REPO", "/repo")
ROOT = os.path.dirname(os.path.dirname(os.path.abspath(__file__)))
OUT = os.path.join(ROOT, "lean", "JoinModel", "Tables.lean")
HARNESS = os.environ.get("VERIF_HARNESS", os.path.join(ROOT, ".build", "harness", "release", "jharness"))


class ExtractError(Exception):
    pass


def read(rel):
    with open(os.path.join(REPO, rel)) as f:
        return f.read()


def need(m, what):
    if not m:
        raise ExtractError("pattern not found: " + what)
    return m


COMB_LEAN = {
    "Map": ".map", "Dot": ".dot", "Filter": ".filter", "Inspect": ".inspect", "Then": ".then_",
    "AndThen": ".andThen", "Or": ".or_", "OrElse": ".orElse", "MapErr": ".mapErr",
    "Initial": ".initial", "Chain": ".chain", "Flatten": ".flatten", "Collect": ".collect",
    "Enumerate": ".enumerate", "Find": ".find", "Fold": ".fold", "TryFold": ".tryFold",
    "Unzip": ".unzip", "Zip": ".zip", "Partition": ".partition", "FilterMap": ".filterMap",
    "FindMap": ".findMap", "UNWRAP": ".unwrap", "Single": ".initial",
}


def comb(name):
    if name not in COMB_LEAN:
        raise ExtractError("unknown combinator/constructor name: " + name)
    return COMB_LEAN[name]


def lean_char(c):
    if c == "'":
        return "'\\''"
    if c == "\\":
        return "'\\\\'"
    return "'" + c + "'"


def lean_str(s):
    return '"' + s.replace("\\", "\\\\").replace('"', '\\"') + '"'


def tokpat(src):
    src = src.strip()
    m = re.fullmatch(r"Token ! \[ (.+?) \]", src)
    if m:
        return ".punct [" + ", ".join(lean_char(c) for c in m.group(1).replace(" ", "")) + "]"
    m = re.fullmatch(r"keywords :: (\w+)", src)
    if m:
        return ".kw " + lean_str(m.group(1))
    if src == "syn :: token :: Bracket":
        return ".bracket"
    raise ExtractError("unknown token test: " + src)


# ------------------------------------------------------------------------------------------------
# canonical token text of a Rust source file: comments dropped, every token separated by exactly one space.
# Multi-character operators inside which Rust allows no white space are kept together; everything else (brackets,
# commas, `<`, `>`, `!`, `?`, `.`, …) is a token of its own, so line breaks, indentation and rustfmt settings do not matter.

_MULTI = ["..=", "...", "::", "=>", "->", "&&", "||", "==", "!=", "<=", ">=", "..", "+=", "-=", "*=", "/="]
_TOK = re.compile(r"""
    (?P<ws>\s+)
  | (?P<lc>//[^\n]*)
  | (?P<rs>b?r(?P<h>\#*)".*?"(?P=h))
  | (?P<st>b?"(?:\\.|[^"\\])*")
  | (?P<ch>b?'(?:\\(?:x[0-9a-fA-F]{2}|u\{[0-9a-fA-F]+\}|.)|[^'\\])')
  | (?P<lt>'[A-Za-z_][A-Za-z0-9_]*)
  | (?P<id>(?:r\#)?[A-Za-z_][A-Za-z0-9_]*)
  | (?P<nu>\d[A-Za-z0-9_]*)
""", re.X | re.S)


def lex(text):
    out = []
    i, n = 0, len(text)
    while i < n:
        if text.startswith("/*", i):
            depth, j = 1, i + 2
            while j < n and depth:
                if text.startswith("/*", j):
                    depth += 1
                    j += 2
                elif text.startswith("*/", j):
                    depth -= 1
                    j += 2
                else:
                    j += 1
            i = j
            continue
        m = _TOK.match(text, i)
        if m:
            if m.lastgroup not in ("ws", "lc"):
                out.append(m.group(0))
            i = m.end()
            continue
        for op in _MULTI:
            if text.startswith(op, i):
                out.append(op)
                i += len(op)
                break
        else:
            out.append(text[i])
            i += 1
    return out


def canon(text):
    return " ".join(lex(text))


def rx(template):
    """A regex over canonical token text, written as Rust text.  `«…»` encloses raw regex (groups, alternatives, `.*?`);
    everything else is lexed like the source and matched token by token."""
    parts = []
    for k, seg in enumerate(re.split(r"«(.*?)»", template, flags=re.S)):
        if k % 2:
            if seg.startswith("~") and parts:        # `«~…»`: glued to what precedes (for optional tokens: `«~(?: ,)?»`)
                parts[-1] += seg[1:]
            else:
                parts.append(seg)
        else:
            toks = lex(seg)
            if toks:
                parts.append(" ".join(re.escape(t) for t in toks))
    return " ".join(parts)


def strip_comments(s):
    return canon(s)


def block_after(ctext, start):
    """`ctext` canonical; `start` index of a `{` token: the text between it and its matching `}`."""
    assert ctext[start] == "{"
    depth = 0
    toks = ctext[start:].split(" ")
    acc = []
    for t in toks:
        if t == "{":
            depth += 1
            if depth == 1:
                continue
        elif t == "}":
            depth -= 1
            if depth == 0:
                return " ".join(acc)
        acc.append(t)
    raise ExtractError("unbalanced braces")


def sha(s):
    return hashlib.sha256(s.encode()).hexdigest()[:16]


# ------------------------------------------------------------------------------------------------
# canonical token text -> Lean terms


def words_to_lean(words, holes):
    """words: canonical token words; holes: dict marker ident -> hole index (or None)."""
    out = []
    stack = []
    opens = {"(": ".paren", "{": ".brace", "[": ".bracket", "N(": ".none"}
    closes = {")", "}", "]", ")N"}
    cur = out
    for w in words:
        if w == "":
            continue
        if w in opens:
            stack.append((cur, opens[w]))
            cur = []
        elif w in closes:
            inner = cur
            cur, d = stack.pop()
            cur.append(("group", d, inner))
        elif w.startswith("i:"):
            name = w[2:]
            if holes is not None and name in holes:
                cur.append(("hole", holes[name]))
            else:
                cur.append(("tok", ".ident " + lean_str(name)))
        elif w.startswith("p:"):
            c = w[2]
            j = "true" if w.endswith("j") and len(w) == 4 else "false"
            cur.append(("tok", ".punct " + lean_char(c) + " " + j))
        elif w.startswith("l:"):
            cur.append(("tok", ".lit " + lean_str(unesc(w[2:]))))
        else:
            raise ExtractError("bad token word " + w)
    return out


def unesc(s):
    return (s.replace("%20", " ").replace("%09", "\t").replace("%0A", "\n")
            .replace("%0D", "\r").replace("%25", "%"))


def tmpl_lean(items):
    parts = []
    for it in items:
        if it[0] == "tok":
            parts.append(".tok (" + it[1] + ")")
        elif it[0] == "hole":
            parts.append(".hole " + str(it[1]))
        else:
            parts.append(".group " + it[1] + " " + tmpl_lean(it[2]))
    return "[" + ", ".join(parts) + "]"


def toks_lean(items):
    parts = []
    for it in items:
        if it[0] == "tok":
            parts.append("(" + it[1] + ")")
        elif it[0] == "group":
            parts.append("(.group " + it[1] + " " + toks_lean(it[2]) + ")")
        else:
            raise ExtractError("hole in plain tokens")
    return "[" + ", ".join(parts) + "]"


# ------------------------------------------------------------------------------------------------


def old_defs():
    """name -> text of each `def` of the last generated Tables.lean (with its doc comment)"""
    if not os.path.exists(OUT):
        return {}
    with open(OUT) as f:
        text = f.read()
    body = text.split("open JoinModel\n", 1)[-1].rsplit("end JoinModel.Tables", 1)[0]
    defs = {}
    for chunk in re.split(r"\n(?=(?:/--.*?-/\n)?def )", "\n" + body, flags=re.S):
        m = re.search(r"^def (\w+)", chunk, re.M)
        if m:
            defs[m.group(1)] = chunk.strip("\n")
    return defs


def main():
    summary = {}
    head = ["-- GENERATED by tools/extract_tables.py from the current /repo tree. Do not edit.",
            "import JoinModel.TableTypes", "namespace JoinModel.Tables", "open JoinModel", ""]
    old = old_defs()
    fallback = {}
    state = {}

    def section(name, defs, fn):
        """Runs one extraction.  When its text pattern is gone and the last generated tables have these `def`s, they are
        kept (recorded in summary["fallback"]): the check then has to validate them against the running code."""
        L = []
        try:
            fn(L)
            return L
        except ExtractError as e:
            if os.environ.get("VERIF_NO_FALLBACK") or not all(d in old for d in defs):
                raise
            fallback[name] = str(e)
            out = []
            for d in defs:
                out.append(old[d])
            out.append("")
            return out

    def t_determiners(L):
        # ---- T1/T2: determiners (text) -------------------------------------------------------------
        state['parse_rs'] = parse_rs = canon(read("join_impl/src/join/parse.rs"))
        m = need(re.search(rx("define_group_determiners ! «[({\\[]» «(.*?)» «[)}\\]]» ;"), parse_rs), "define_group_determiners!")
        body = m.group(1)
        summary["T1_determiners_sha"] = sha(body)
        state['rows'] = rows = []
        for mm in re.finditer(r"(\w+) => ((?:(?:Token ! \[ [^\]]+? \]|keywords :: \w+|syn :: token :: Bracket)(?: , )?)+) => (\d+)(?: ,|$)", body):
            toks = [tokpat(t) for t in re.split(r" , (?=Token !|keywords ::|syn :: token)", mm.group(2).strip().rstrip(",").strip())]
            rows.append((comb(mm.group(1)), toks, int(mm.group(3))))
        if not rows or re.sub(r"(\w+) => ((?:(?:Token ! \[ [^\]]+? \]|keywords :: \w+|syn :: token :: Bracket)(?: , )?)+) => (\d+)(?: ,|$)", "", body).strip():
            raise ExtractError("determiner rows: unrecognised text in the table: %r" % body[:200])
        gd_rs = canon(read("join_impl/src/chain/group/group_determiner.rs"))
        m = need(re.search(rx("macro_rules ! define_group_determiners {"), gd_rs), "macro define_group_determiners")
        mac = block_after(gd_rs, m.end() - 1)
        summary["T1_macro_sha"] = sha(mac)
        need(re.search(rx("[ $crate::define_determiner_with_no_group!(Token![,] => 0),"), mac), "leading comma determiner")
        need(re.search(rx("new_const(None, $crate::handler::Handler::peek_handler as *const (), true, 0) «~(?: ,)?»]"), mac),
             "trailing handler determiner")
        # token checker forms: 1, 2, 3 tokens use peek/peek2/peek3, more use fork+skip (same semantics in the model)
        need(re.search(rx("input.peek($token1) && input.peek2($token2) && input.peek3($token3)"), gd_rs), "3-token checker")
        need(re.search(rx("input.peek($token) && $crate::parse::utils::skip(&input)"), gd_rs), "n-token checker")
        handler_rs = canon(read("join_impl/src/handler.rs"))
        summary["T12_handler_sha"] = sha(handler_rs)
        hk = []
        for kw in re.findall(rx("syn::custom_keyword!(«(\\w+)»);"), handler_rs):
            need(re.search(rx("input.peek(keywords::" + kw + ") && input.peek2(Token![=>])"), handler_rs),
                 "peek of handler keyword " + kw)
            hk.append(kw)
        if sorted(hk) != ["and_then", "map", "then"]:
            raise ExtractError("handler keywords changed: %r" % hk)
        m = need(re.search(rx("pub fn peek_handler(«[^{]*?») -> bool {"), handler_rs), "peek_handler")
        peeks = re.findall(rx("Self::peek_«(\\w+)»_handler(input)").replace(" ", " ?"), block_after(handler_rs, m.end() - 1))
        if sorted(peeks) != ["and_then", "map", "then"]:
            raise ExtractError("peek_handler changed")
        L.append("def determiners : List DetRow := [")
        L.append("  ⟨none, [[.punct [',']]], 0⟩,")
        for c, toks, n in rows:
            L.append("  ⟨some %s, [[%s]], %d⟩," % (c, ", ".join(toks), n))
        alts = ", ".join("[.kw %s, .punct ['=', '>']]" % lean_str(k) for k in peeks)
        L.append("  ⟨none, [%s], 0⟩]" % alts)
        L.append("")
        for const, lean_name in (("DEFERRED_DETERMINER", "deferredDet"), ("WRAPPER_DETERMINER", "wrapperDet")):
            m = need(re.search(rx(const + " : & GroupDeterminer = & crate::define_determiner_with_no_group ! «[({\\[]» «(.*?)» => «(\\d+)» «[)}\\]]» ;"),
                               parse_rs), const)
            L.append("def %s : DetRow := ⟨none, [[%s]], %s⟩" % (
                lean_name, ", ".join(tokpat(t) for t in re.split(r" , (?=Token !)", m.group(1).strip())), m.group(2)))
        L.append("")


    def t_options(L):
        parse_rs = canon(read("join_impl/src/join/parse.rs"))
        # ---- T3: option loop (text) ----------------------------------------------------------------
        m = need(re.search(rx("impl Parse for JoinInputDefault {"), parse_rs), "impl Parse for JoinInputDefault")
        pbody = block_after(parse_rs, m.end() - 1)
        summary["T3_parse_sha"] = sha(pbody)
        opts = re.findall(rx("if input.peek(keywords::«(\\w+)») { input.parse::<keywords::«\\1»>()?; let content; "
                             "parenthesized!(content in input); if join.«\\1».is_some() { return Err(input.error(«\"\\1 specified twice\"»)); } "
                             "join.«\\1» = Some(«(content \\. parse(?: :: < LitBool >)? \\( \\) \\?(?: \\. value)?)»); }"), pbody)
        if len(opts) != 4:
            raise ExtractError("option blocks: expected 4, found %d" % len(opts))
        first_opt = rx("{ if input.peek(keywords::")
        m_for = re.search(rx("for _ in 0 .. «(\\d+)»") + " " + first_opt, pbody)
        m_loop = re.search(r"(?:loop|while [^{]*?) " + first_opt, pbody)
        if m_for:
            rounds = "some %s" % m_for.group(1)
        elif m_loop:
            rounds = "none"
        else:
            raise ExtractError("option loop shape not recognised")
        L.append("/-- Option keywords in the order they are tried inside one round; `optionRounds = none`: rounds repeat")
        L.append("    until one parses nothing. -/")
        L.append("def optionOrder : List String := [%s]" % ", ".join(lean_str(o[0]) for o in opts))
        L.append("def optionRounds : Option Nat := " + rounds)
        L.append("")


    def t_harness(L):
        rows = state.get("rows")
        # ---- harness answers -----------------------------------------------------------------------
        try:
            ht = subprocess.run([HARNESS, "tables"], capture_output=True, text=True, check=True).stdout
        except Exception as e:  # noqa
            raise ExtractError("harness tables failed: %s" % e)
        hrows = [l.split("\t") for l in ht.splitlines() if not l.startswith("PROBE")]
        # keep the harness answers for the probe comparison done by the Lean driver
        os.makedirs(os.path.join(ROOT, ".build"), exist_ok=True)
        hp = os.path.join(ROOT, ".build", "harness_tables.txt")
        with open(hp + ".tmp%d" % os.getpid(), "w") as f:
            f.write(ht)
        os.replace(hp + ".tmp%d" % os.getpid(), hp)
        dets = [r for r in hrows if r[0] == "DET"]
        if rows is not None:        # (the text table fell back otherwise: the probes decide)
            if len(dets) != len(rows) + 2:
                raise ExtractError("determiner count: text %d vs running code %d" % (len(rows) + 2, len(dets)))
            for (c, toks, n), d in zip(rows, dets[1:-1]):
                if comb(d[2]) != c or int(d[3]) != n:
                    raise ExtractError("determiner row mismatch text/running code: %r vs %r" % ((c, n), d))
        combs = [r for r in hrows if r[0] == "COMB"]
        L.append("def canBeWrapper : List Comb := [%s]" % ", ".join(comb(r[1]) for r in combs if r[2] == "1"))
        L.append("def isErrExpr : List Comb := [%s]" % ", ".join(comb(r[1]) for r in combs if r[3] == "1"))
        L.append("")
        # T7 wrapper ctor
        wr = []
        placeholder = None
        for r in [r for r in hrows if r[0] == "WRAPCTOR"]:
            m = need(re.search(r"M (\w+) I W ,, X E :: (.*?) ,, M UNWRAP I U$", r[2]), "wrapper ctor dump " + r[2])
            wr.append((r[1], m.group(1)))
            if placeholder is None:
                placeholder = m.group(2)
            elif placeholder != m.group(2):
                raise ExtractError("wrapper placeholders differ")
        # operator source -> combinator via determiner rows: use combinator of the parsed structure; key rows by ctor
        L.append("/-- For each wrapper-capable operator (source text), the constructor the real parser builds for `op >>>`. -/")
        L.append("def wrapperCtorBySrc : List (String × Comb) := [%s]" % ", ".join(
            "(%s, %s)" % (lean_str(a), comb(b)) for a, b in wr))
        L.append("def wrapperPlaceholder : Toks := " + toks_lean(words_to_lean(placeholder.split(" "), None)))
        L.append("")
        # T8/T9 emission
        L.append("/-- (constructor, operand count) ↦ emitted tokens (`none`: `to_tokens` panics). -/")
        L.append("def emit : List (Comb × Nat × Option (List TmplTok)) := [")
        em = [r for r in hrows if r[0] == "EMIT"]
        holes = {"m0": 0, "m1": 1, "m2": 2, "m3": 3}
        el = []
        for r in em:
            if r[3] == "panic":
                t = "none"
            else:
                t = "some " + tmpl_lean(words_to_lean(r[3].split(" "), holes))
            el.append("  (%s, %s, %s)" % (comb(r[1]), r[2], t))
        L.append(",\n".join(el) + "]")
        seen = {}
        for r in em:
            seen.setdefault(r[1], (r[4], r[5]))
        L.append("def replaceable : List Comb := [%s]" % ", ".join(comb(k) for k, v in seen.items() if v[0] == "1"))
        L.append("def hasInner : List Comb := [%s]" % ", ".join(comb(k) for k, v in seen.items() if v[1] != "none"))
        L.append("")


    def t_arity(L):
        # ---- T6 arity (text) -----------------------------------------------------------------------
        state['ag'] = ag = canon(read("join_impl/src/chain/group/action_group.rs"))
        m = need(re.search(rx("#[cfg(not(feature = \"full\"))] «~(?: pub)?» fn parse_action_expr «[^{]*?» {"), ag),
                 "non-full fn parse_action_expr")
        body = block_after(ag, m.end() - 1)
        summary["T6_arity_sha"] = sha(body)
        eg = canon(read("join_impl/src/chain/group/expr_group.rs"))
        m = need(re.search(rx("parse_n_or_empty_unit_fn ! «[({\\[]» «(.*?)» «[)}]»"), eg), "parse_n_or_empty_unit_fn!")
        unitfn = {}
        for name, n, e in re.findall(rx("«(\\w+)» => [ «(\\d+)» , «(true|false)» ]"), m.group(1)):
            unitfn[name] = (int(n), e)
        pe = canon(read("join_impl/src/chain/expr/process_expr.rs"))
        m = need(re.search(rx("#[cfg(not(feature = \"full\"))] #[derive(«[^\\]]*»)] pub enum ProcessExpr {"), pe), "enum ProcessExpr (non-full)")
        enum_body = block_after(pe, m.end() - 1)
        summary["ProcessExpr_enum_sha"] = sha(enum_body)
        ctor_kind = {}
        for name, rest in re.findall(r"(?:^|, )(\w+)( \( [^()]*? \))?(?= ,|$)", enum_body):
            ctor_kind[name] = "type" if "Type" in rest else "expr"
        ar = []
        for cname, fn, enum, ctor in re.findall(
                rx("Combinator::«(\\w+)» => «~(?: \\{)?» ExprGroup::«(\\w+)»(«(\\w+)»::«(\\w+)», unit_parser, self, input «~(?: ,)?»)"), body):
            if fn not in unitfn:
                raise ExtractError("unknown unit fn " + fn)
            n, e = unitfn[fn]
            kind = ctor_kind.get(ctor, "expr") if enum == "ProcessExpr" else "expr"
            ar.append("  (%s, ⟨%s, %d, %s, .%s⟩)" % (comb(cname), comb(ctor), n, e, kind))
        if len(ar) != 23:
            raise ExtractError("arity rows: expected 23, found %d" % len(ar))
        L.append("def arity : List (Comb × Arity) := [")
        L.append(",\n".join(ar) + "]")
        L.append("")

    def t_wrapper(L):
        ag = canon(read("join_impl/src/chain/group/action_group.rs"))
        # T7 by combinator (text): to_wrapper_action_expr
        m = need(re.search(rx("fn to_wrapper_action_expr(self) «[^{]*?» {"), ag), "to_wrapper_action_expr")
        wbody = block_after(ag, m.end() - 1)
        m = need(re.search(rx("match self.combinator { «(.*?)» _ => return None"), wbody), "to_wrapper_action_expr match")
        summary["T7_wrapper_sha"] = sha(m.group(1))
        wrows = re.findall(rx("Combinator::«(\\w+)» => «~(?: \\{)?» ActionExpr::«\\w+»(«\\w+»::«(\\w+)»([return_val]))"), m.group(1))
        if len(wrows) != m.group(1).count("Combinator ::") or not wrows:
            raise ExtractError("to_wrapper_action_expr: %d arms recognised of %d" % (len(wrows), m.group(1).count("Combinator ::")))
        L.append("def wrapperCtor : List (Comb × Comb) := [%s]" % ", ".join("(%s, %s)" % (comb(a), comb(b)) for a, b in wrows))
        L.append("")


    def t_kinds(L):
        # ---- T10 macro kinds (text) ----------------------------------------------------------------
        lib = canon(read("join/src/lib.rs"))
        fns = []
        for m in re.finditer(rx("#[proc_macro] pub fn «(\\w+)»(input: TokenStream) -> TokenStream {"), lib):
            fns.append((m.group(1), block_after(lib, m.end() - 1)))
        summary["T10_lib_sha"] = sha("".join(n + b for n, b in fns))
        mk = []
        bodies = set()
        for name, b in fns:
            mm = need(re.fullmatch(
                rx("let parsed = syn::parse_macro_input!(input as JoinInputDefault); join_impl(parsed, Config { «(.*?)» } «~(?: ,)?»)"), b),
                "body of proc macro " + name)
            fields = dict(re.findall(r"(is_\w+) : (true|false)", mm.group(1)))
            if sorted(fields) != ["is_async", "is_spawn", "is_try"]:
                raise ExtractError("Config literal of " + name)
            mk.append("  ⟨%s, %s, %s, %s⟩" % (lean_str(name), fields["is_async"], fields["is_try"], fields["is_spawn"]))
            bodies.add(re.sub(r" , (?=[)}\]])", " ", re.sub(r"Config \{ .*? \}", "Config { _ }", b)))
        if len(bodies) != 1:
            raise ExtractError("proc macro bodies differ in more than the Config booleans")
        need(re.search(rx("fn join_impl(join: JoinInputDefault, config: Config) -> TokenStream { TokenStream::from(generate_join(&join, config)) }"), lib),
             "join_impl helper")
        L.append("def macroKinds : List MacroKindRow := [")
        L.append(",\n".join(mk) + "]")
        L.append("")


    def t_names(L):
        # ---- T11 names (text) ----------------------------------------------------------------------
        nc = canon(read("join_impl/src/join/name_constructors.rs"))
        nc = nc.split("# [ cfg ( test ) ]")[0]
        summary["T11_names_sha"] = sha(nc)
        fmt = dict(re.findall(rx("pub fn «(construct_\\w+)»(«[^)]*») -> Ident { format_ident!(«\"([^\"]*)\"»"), nc))
        fixed = dict(re.findall(rx("pub fn «(construct_\\w+)»() -> Ident { Ident::new(«\"([^\"]*)\"», Span::call_site())"), nc))
        want_fmt = ["construct_var_name", "construct_step_results_name", "construct_result_name",
                    "construct_thread_builder_name", "construct_expr_wrapper_name"]
        want_fixed = ["construct_inspect_fn_name", "construct_spawn_tokio_fn_name", "construct_results_name",
                      "construct_handler_name", "construct_internal_value_name", "construct_thread_builder_fn_name"]
        for w in want_fmt:
            if w not in fmt:
                raise ExtractError("name constructor " + w)
        for w in want_fixed:
            if w not in fixed:
                raise ExtractError("name constructor " + w)

        def pieces(f):
            return "[" + ", ".join(lean_str(p) for p in f.split("{}")) + "]"
        L.append("/-- Format pieces: the name is piece₀ ++ repr i₀ ++ piece₁ ++ repr i₁ ++ … -/")
        L.append("def fmtVar : List String := " + pieces(fmt["construct_var_name"]))
        L.append("def fmtStepResults : List String := " + pieces(fmt["construct_step_results_name"]))
        L.append("def fmtResult : List String := " + pieces(fmt["construct_result_name"]))
        L.append("def fmtThreadBuilder : List String := " + pieces(fmt["construct_thread_builder_name"]))
        L.append("def fmtExprWrapper : List String := " + pieces(fmt["construct_expr_wrapper_name"]))
        L.append("def nameInspect : String := " + lean_str(fixed["construct_inspect_fn_name"]))
        L.append("def nameSpawnTokio : String := " + lean_str(fixed["construct_spawn_tokio_fn_name"]))
        L.append("def nameResults : String := " + lean_str(fixed["construct_results_name"]))
        L.append("def nameHandler : String := " + lean_str(fixed["construct_handler_name"]))
        L.append("def nameValue : String := " + lean_str(fixed["construct_internal_value_name"]))
        L.append("def nameThreadBuilderFn : String := " + lean_str(fixed["construct_thread_builder_fn_name"]))
        L.append("")

    L = list(head)
    L += section("determiners", ["determiners", "deferredDet", "wrapperDet"], t_determiners)
    L += section("options", ["optionOrder", "optionRounds"], t_options)
    L += t_harness_checked(t_harness, state)
    L += section("arity", ["arity"], t_arity)
    L += section("wrapperCtor", ["wrapperCtor"], t_wrapper)
    L += section("macroKinds", ["macroKinds"], t_kinds)
    L += section("names", ["fmtVar", "fmtStepResults", "fmtResult", "fmtThreadBuilder", "fmtExprWrapper", "nameInspect",
                           "nameSpawnTokio", "nameResults", "nameHandler", "nameValue", "nameThreadBuilderFn"], t_names)
    L.append("end JoinModel.Tables")
    text = "\n".join(L) + "\n"
    text = re.sub(r"\n{3,}", "\n\n", text)
    prev = None
    if os.path.exists(OUT):
        with open(OUT) as f:
            prev = f.read()
    if prev != text:
        with open(OUT + ".tmp%d" % os.getpid(), "w") as f:
            f.write(text)
        os.replace(OUT + ".tmp%d" % os.getpid(), OUT)
    summary["tables_lean_sha"] = sha(text)
    summary["changed"] = prev != text
    if fallback:
        summary["fallback"] = fallback
    print(json.dumps(summary))


def t_harness_checked(fn, state):
    L = []
    fn(L)
    return L


if __name__ == "__main__":
    try:
        main()
    except ExtractError as e:
        sys.stderr.write("extract_tables: %s\n" % e)
        sys.exit(3)
