/-
  Poll-level model of what an async macro's future does (C09).

  The sequential semantics (`Sem`/`Spec`, theorem `sync_refines`) fixes *what* an async macro computes under the
  canonical schedule (every operand polled to completion in turn).  This file models *how* the future is driven:

  * a `Task` is the future of one branch in one step: segments of user events, each behind an optional gate (a
    pending point that becomes ready when the outside world opens the gate), and the chain's output;
  * `pollStep` is `futures::join!` / `try_join!`: one poll polls every unfinished operand once, in order
    (`try_join!` returns as soon as an operand has finished with a failure);
  * a `Plan` is the `async move` block: steps one after the other, the tasks of a step built from the outputs of the
    previous one; `Plan.poll` is one poll of the macro's future, `Plan.run` a sequence of polls between which
    arbitrary gates are opened (the empty set: a spurious poll).

  Assumed, not proved (trusted base): that rustc's `async`/`.await` and the futures crate's `join!`/`try_join!`
  behave like `Plan.poll`/`pollStep`.  K2-async compares the model's per-poll event sequence with the real future on
  a deterministic executor under random gate schedules.
-/
namespace JoinModel

abbrev Gates := Nat → Bool

structure Seg (ε : Type) where
  gate : Option Nat
  evs : List ε
  deriving Repr

structure Task (ε α : Type) where
  segs : List (Seg ε)
  out : α
  deriving Repr

variable {ε α ρ : Type}

def Seg.ready (op : Gates) (s : Seg ε) : Bool :=
  match s.gate with
  | none => true
  | some g => op g

/-- run the segments whose gates are open, up to the first closed gate -/
def advSegs (op : Gates) : List (Seg ε) → List ε × List (Seg ε)
  | [] => ([], [])
  | s :: rest =>
    if s.ready op then ((s.evs ++ (advSegs op rest).1), (advSegs op rest).2) else ([], s :: rest)

def Task.poll (op : Gates) (t : Task ε α) : List ε × Task ε α := ((advSegs op t.segs).1, ⟨(advSegs op t.segs).2, t.out⟩)

def Task.done (t : Task ε α) : Bool := t.segs.isEmpty

/-- the gate an unfinished task is waiting for (where its waker is registered) -/
def Task.waitsOn (t : Task ε α) : Option Nat :=
  match t.segs with
  | s :: _ => s.gate
  | [] => none

def Task.allEvs (t : Task ε α) : List ε := t.segs.flatMap (·.evs)

/-- One poll of `join!(t₁, …, tₙ)` (`stop = fun _ => false`) or `try_join!` (`stop` = "is a failure"): every operand is
    polled once, in order; an operand that has finished with a stopping output ends the poll at once. -/
def pollStep (op : Gates) (stop : α → Bool) : List (Task ε α) → List ε × List (Task ε α) × Option α
  | [] => ([], [], none)
  | t :: ts =>
    if (t.poll op).2.done && stop (t.poll op).2.out then ((t.poll op).1, (t.poll op).2 :: ts, some (t.poll op).2.out)
    else (((t.poll op).1 ++ (pollStep op stop ts).1), (t.poll op).2 :: (pollStep op stop ts).2.1, (pollStep op stop ts).2.2)

/-- the body of the `async move` block -/
inductive Plan (ε α ρ : Type) where
  | done (r : ρ)
  /-- a step: events of its block captures (evaluated when the step is entered), its tasks, when to stop early and
      with what, and how to go on from the outputs -/
  | step (stop : α → Bool) (onStop : α → ρ) (ts : List (Task ε α)) (pre : List α → List ε) (next : List α → Plan ε α ρ)

/-- one poll of the macro's future -/
def Plan.poll (op : Gates) : Plan ε α ρ → List ε × Plan ε α ρ
  | .done r => ([], .done r)
  | .step stop onStop ts pre next =>
    match (pollStep op stop ts).2.2 with
    | some a => ((pollStep op stop ts).1, .done (onStop a))
    | none =>
      if (pollStep op stop ts).2.1.all Task.done then
        ((pollStep op stop ts).1 ++ pre ((pollStep op stop ts).2.1.map (·.out)) ++
            ((next ((pollStep op stop ts).2.1.map (·.out))).poll op).1,
          ((next ((pollStep op stop ts).2.1.map (·.out))).poll op).2)
      else ((pollStep op stop ts).1, .step stop onStop (pollStep op stop ts).2.1 pre next)

def Plan.isDone : Plan ε α ρ → Bool
  | .done _ => true
  | _ => false

/-- a sequence of polls; `gs[i]` are the gates open at poll `i` -/
def Plan.run : List Gates → Plan ε α ρ → List ε × Plan ε α ρ
  | [], p => ([], p)
  | g :: gs, p => ((p.poll g).1 ++ ((p.poll g).2.run gs).1, ((p.poll g).2.run gs).2)

/-- the gates the pending future has registered its waker with -/
def Plan.wakeSet : Plan ε α ρ → List Nat
  | .done _ => []
  | .step _ _ ts _ _ => ts.filterMap Task.waitsOn

def allOpen : Gates := fun _ => true

/-! ### Tasks -/

theorem advSegs_allOpen (segs : List (Seg ε)) : advSegs allOpen segs = (segs.flatMap (·.evs), []) := by
  induction segs with
  | nil => rfl
  | cons s rest ih =>
    have : s.ready allOpen = true := by unfold Seg.ready; cases s.gate <;> rfl
    simp [advSegs, this, ih]

/-- events emitted plus events still to come are the task's events: a poll never loses, repeats or reorders them -/
theorem advSegs_split (op : Gates) (segs : List (Seg ε)) :
    (advSegs op segs).1 ++ (advSegs op segs).2.flatMap (·.evs) = segs.flatMap (·.evs) := by
  induction segs with
  | nil => rfl
  | cons s rest ih =>
    by_cases h : s.ready op = true
    · simp [advSegs, h, ih]
    · simp [advSegs, h]

/-- after a poll an unfinished task waits on a closed gate -/
theorem advSegs_blocked (op : Gates) (segs : List (Seg ε)) :
    (advSegs op segs).2 = [] ∨ ∃ s rest g, (advSegs op segs).2 = s :: rest ∧ s.gate = some g ∧ op g = false := by
  induction segs with
  | nil => exact Or.inl rfl
  | cons s rest ih =>
    by_cases h : s.ready op = true
    · simp only [advSegs, h, if_true]; exact ih
    · right
      refine ⟨s, rest, ?_⟩
      simp only [advSegs, h]
      unfold Seg.ready at h
      cases hg : s.gate with
      | none => simp [hg] at h
      | some g => exact ⟨g, by simp, rfl, by simpa [hg] using h⟩

theorem Task.poll_out (op : Gates) (t : Task ε α) : (t.poll op).2.out = t.out := rfl

theorem Task.poll_allOpen (t : Task ε α) : t.poll allOpen = (t.allEvs, ⟨[], t.out⟩) := by
  simp [Task.poll, advSegs_allOpen, Task.allEvs]

theorem Task.poll_split (op : Gates) (t : Task ε α) : (t.poll op).1 ++ (t.poll op).2.allEvs = t.allEvs :=
  advSegs_split op t.segs

/-- **Wake-up registration.**  After a poll, a task is finished or waits on a gate that is closed. -/
theorem Task.poll_blocked (op : Gates) (t : Task ε α) :
    (t.poll op).2.done = true ∨ ∃ g, (t.poll op).2.waitsOn = some g ∧ op g = false := by
  rcases advSegs_blocked op t.segs with h | ⟨s, rest, g, h1, h2, h3⟩
  · left; simp [Task.poll, Task.done, h]
  · right; exact ⟨g, by simp [Task.poll, Task.waitsOn, h1, h2], h3⟩

/-- **Progress.**  A task whose next gate is open emits its next segment when polled. -/
theorem Task.poll_progress (op : Gates) (t : Task ε α) (s : Seg ε) (rest : List (Seg ε)) (hs : t.segs = s :: rest)
    (hr : s.ready op = true) : ∃ more, (t.poll op).1 = s.evs ++ more ∧ (t.poll op).2.segs.length ≤ rest.length := by
  refine ⟨(advSegs op rest).1, by simp [Task.poll, hs, advSegs, hr], ?_⟩
  simp only [Task.poll, hs, advSegs, hr, if_true]
  clear hs hr
  induction rest with
  | nil => simp [advSegs]
  | cons s' r ih =>
    by_cases h : s'.ready op = true
    · simp only [advSegs, h, if_true, List.length_cons]; omega
    · simp [advSegs, h]

/-! ### One poll of a step -/

/-- **A pending branch never blocks a ready sibling** (`join!`): every operand comes out of the poll exactly as if it
    had been polled alone, and the poll's events are the operands' own events, in operand order. -/
theorem pollStep_join (op : Gates) (ts : List (Task ε α)) :
    (pollStep op (fun _ => false) ts).2.1 = ts.map (fun t => (t.poll op).2) ∧
    (pollStep op (fun _ => false) ts).1 = ts.flatMap (fun t => (t.poll op).1) ∧
    (pollStep op (fun _ => false) ts).2.2 = none := by
  induction ts with
  | nil => exact ⟨rfl, rfl, rfl⟩
  | cons t ts ih =>
    obtain ⟨h1, h2, h3⟩ := ih
    simp [pollStep, h1, h2, h3]

/-- `try_join!`: the operands in front of the one that stopped the poll were polled as if alone; the ones behind it
    were not touched -/
theorem pollStep_prefix (op : Gates) (stop : α → Bool) (ts : List (Task ε α)) :
    ∃ n, n ≤ ts.length ∧
      (pollStep op stop ts).2.1 = (ts.take n).map (fun t => (t.poll op).2) ++ ts.drop n ∧
      (pollStep op stop ts).1 = (ts.take n).flatMap (fun t => (t.poll op).1) ∧
      ((pollStep op stop ts).2.2 = none → n = ts.length) := by
  induction ts with
  | nil => exact ⟨0, by simp, rfl, rfl, fun _ => rfl⟩
  | cons t ts ih =>
    by_cases h : ((t.poll op).2.done && stop (t.poll op).2.out) = true
    · refine ⟨1, by simp, ?_, ?_, ?_⟩
      · simp [pollStep, h]
      · simp [pollStep, h]
      · intro hn; simp [pollStep, h] at hn
    · obtain ⟨n, hn, h1, h2, h3⟩ := ih
      refine ⟨n + 1, by simp; omega, ?_, ?_, ?_⟩
      · simp [pollStep, h, h1]
      · simp [pollStep, h, h2]
      · intro hnone
        simp only [pollStep, h] at hnone
        simp [h3 (by simpa using hnone)]

theorem pollStep_length (op : Gates) (stop : α → Bool) (ts : List (Task ε α)) :
    (pollStep op stop ts).2.1.length = ts.length := by
  induction ts with
  | nil => rfl
  | cons t ts ih =>
    unfold pollStep
    split <;> simp [ih]

/-- the outputs of the operands never change -/
theorem pollStep_outs (op : Gates) (stop : α → Bool) (ts : List (Task ε α)) :
    (pollStep op stop ts).2.1.map (·.out) = ts.map (·.out) := by
  induction ts with
  | nil => rfl
  | cons t ts ih =>
    unfold pollStep
    split <;> simp [ih, Task.poll_out]

/-- with every gate open, `join!` finishes all operands in one poll, running each to its end in operand order -/
theorem pollStep_allOpen_join (ts : List (Task ε α)) :
    pollStep allOpen (fun _ => false) ts = (ts.flatMap Task.allEvs, ts.map (fun t => ⟨[], t.out⟩), none) := by
  obtain ⟨h1, h2, h3⟩ := pollStep_join allOpen ts
  have e : pollStep allOpen (fun _ => false) ts =
      ((pollStep allOpen (fun _ => false) ts).1, (pollStep allOpen (fun _ => false) ts).2.1,
        (pollStep allOpen (fun _ => false) ts).2.2) := rfl
  rw [e, h1, h2, h3]
  simp [Task.poll_allOpen]

/-- **No lost wake-up.**  When a poll of a step leaves it pending (no early stop), every operand that is not finished
    waits on a gate that is closed — so the step is pending only because of closed gates, and each of them is in the
    set the future has registered its waker with. -/
theorem pollStep_blocked (op : Gates) (stop : α → Bool) (ts : List (Task ε α))
    (hnone : (pollStep op stop ts).2.2 = none) :
    ∀ t ∈ (pollStep op stop ts).2.1, t.done = true ∨ ∃ g, t.waitsOn = some g ∧ op g = false := by
  obtain ⟨n, _, h1, _, h3⟩ := pollStep_prefix op stop ts
  have hn := h3 hnone
  subst hn
  intro t ht
  rw [h1] at ht
  simp only [List.take_length, List.drop_length, List.append_nil, List.mem_map] at ht
  obtain ⟨t0, _, rfl⟩ := ht
  exact Task.poll_blocked op t0

/-! ### The whole future -/

/-- canonical semantics: every step's operands run to their end in order (with `try_join!`, up to the first operand
    that stops); this is the run in which every gate is open -/
def firstStop (stop : α → Bool) : List (Task ε α) → List ε × Option α
  | [] => ([], none)
  | t :: ts => if stop t.out then (t.allEvs, some t.out) else (t.allEvs ++ (firstStop stop ts).1, (firstStop stop ts).2)

def Plan.canon : Plan ε α ρ → List ε × ρ
  | .done r => ([], r)
  | .step stop onStop ts pre next =>
    match (firstStop stop ts).2 with
    | some a => ((firstStop stop ts).1, onStop a)
    | none => ((firstStop stop ts).1 ++ pre (ts.map (·.out)) ++ (next (ts.map (·.out))).canon.1,
               (next (ts.map (·.out))).canon.2)

theorem pollStep_allOpen (stop : α → Bool) (ts : List (Task ε α)) :
    (pollStep allOpen stop ts).1 = (firstStop stop ts).1 ∧ (pollStep allOpen stop ts).2.2 = (firstStop stop ts).2 ∧
    ((firstStop stop ts).2 = none → (pollStep allOpen stop ts).2.1 = ts.map (fun t => ⟨[], t.out⟩)) := by
  induction ts with
  | nil => exact ⟨rfl, rfl, fun _ => rfl⟩
  | cons t ts ih =>
    obtain ⟨h1, h2, h3⟩ := ih
    by_cases hs : stop t.out = true
    · simp [pollStep, firstStop, Task.poll_allOpen, Task.done, hs]
    · simp only [Bool.not_eq_true] at hs
      simp only [pollStep, firstStop, Task.poll_allOpen, Task.done, hs, Bool.and_false, Bool.false_eq_true, if_false, h1, h2]
      refine ⟨trivial, trivial, fun hn => ?_⟩
      simp [h3 hn]

/-- **Completion.**  With every gate open one poll completes the future, with the canonical events and result. -/
theorem Plan.poll_allOpen (p : Plan ε α ρ) : p.poll allOpen = (p.canon.1, .done p.canon.2) := by
  induction p with
  | done r => rfl
  | step stop onStop ts pre next ih =>
    obtain ⟨h1, h2, h3⟩ := pollStep_allOpen stop ts
    cases hfs : (firstStop stop ts).2 with
    | some a => simp only [Plan.poll, Plan.canon, h1, h2, hfs]
    | none =>
      have hts := h3 hfs
      have hall : ((pollStep allOpen stop ts).2.1.all Task.done) = true := by
        rw [hts]; simp [Task.done]
      have houts : (pollStep allOpen stop ts).2.1.map (·.out) = ts.map (·.out) := pollStep_outs _ _ _
      simp only [Plan.poll, Plan.canon, h1, h2, hfs, hall, if_true, houts, ih]

/-- a plan none of whose steps stops early: `join!` steps, or `try_join!` steps in which no operand's output stops -/
inductive Plan.NoStop : Plan ε α ρ → Prop
  | done (r : ρ) : Plan.NoStop (.done r)
  | step (stop : α → Bool) (onStop : α → ρ) (ts : List (Task ε α)) (pre : List α → List ε) (next : List α → Plan ε α ρ)
      (hs : ∀ t ∈ ts, stop t.out = false)
      (h : ∀ outs, Plan.NoStop (next outs)) : Plan.NoStop (.step stop onStop ts pre next)

theorem pollStep_nostop (op : Gates) (stop : α → Bool) (ts : List (Task ε α)) (hs : ∀ t ∈ ts, stop t.out = false) :
    pollStep op stop ts = pollStep op (fun _ => false) ts := by
  induction ts with
  | nil => rfl
  | cons t ts ih =>
    have h1 : stop (t.poll op).2.out = false := by rw [Task.poll_out]; exact hs t (by simp)
    simp [pollStep, h1, ih (fun t' ht' => hs t' (by simp [ht']))]

theorem firstStop_nostop (stop : α → Bool) (ts : List (Task ε α)) (hs : ∀ t ∈ ts, stop t.out = false) :
    firstStop stop ts = (ts.flatMap Task.allEvs, none) := by
  induction ts with
  | nil => rfl
  | cons t ts ih => simp [firstStop, hs t (by simp), ih (fun t' ht' => hs t' (by simp [ht']))]

theorem firstStop_never (ts : List (Task ε α)) : firstStop (fun _ => false) ts = (ts.flatMap Task.allEvs, none) := by
  induction ts with
  | nil => rfl
  | cons t ts ih => simp [firstStop, ih]

/-- the events of a step's operands: emitted by one poll ++ still to come is a permutation of all of them -/
theorem polls_perm (op : Gates) (ts : List (Task ε α)) :
    ((ts.flatMap fun t => (t.poll op).1) ++ (ts.map fun t => (t.poll op).2).flatMap Task.allEvs).Perm
      (ts.flatMap Task.allEvs) := by
  induction ts with
  | nil => exact List.Perm.refl _
  | cons t ts iht =>
    simp only [List.flatMap_cons, List.map_cons]
    have e := Task.poll_split op t
    rw [← e]
    have : (((t.poll op).1 ++ ts.flatMap fun t => (t.poll op).1) ++
        ((t.poll op).2.allEvs ++ (ts.map fun t => (t.poll op).2).flatMap Task.allEvs)).Perm
        (((t.poll op).1 ++ (t.poll op).2.allEvs) ++
          ((ts.flatMap fun t => (t.poll op).1) ++ (ts.map fun t => (t.poll op).2).flatMap Task.allEvs)) := by
      simp only [List.append_assoc]
      apply List.Perm.append_left
      rw [← List.append_assoc, ← List.append_assoc]
      exact List.Perm.append_right _ List.perm_append_comm
    exact this.trans (List.Perm.append_left _ iht)

/-- one poll under any gates: what it emits followed by the canonical events of what is left is a permutation of
    the canonical events, and the canonical result is unchanged -/
theorem Plan.poll_canon (op : Gates) (p : Plan ε α ρ) (hp : p.NoStop) :
    ((p.poll op).1 ++ (p.poll op).2.canon.1).Perm p.canon.1 ∧ (p.poll op).2.canon.2 = p.canon.2 ∧ (p.poll op).2.NoStop := by
  induction hp with
  | done r => exact ⟨List.Perm.refl _, rfl, .done r⟩
  | step stop onStop ts pre next hs hnext ih =>
    have hps := pollStep_nostop op stop ts hs
    have hfs := firstStop_nostop stop ts hs
    have hps' : ∀ ts' : List (Task ε α), (∀ t ∈ ts', stop t.out = false) →
        firstStop stop ts' = (ts'.flatMap Task.allEvs, none) :=
      fun ts' h => firstStop_nostop stop ts' h
    obtain ⟨h1, h2, h3⟩ := pollStep_join op ts
    rw [← hps] at h1 h2 h3
    have houts : (pollStep op stop ts).2.1.map (·.out) = ts.map (·.out) := pollStep_outs _ _ _
    have hperm := polls_perm (α := α) op ts
    have hout' : (ts.map fun t => (t.poll op).2).map (·.out) = ts.map (·.out) := by
      simp [List.map_map, Function.comp_def, Task.poll_out]
    by_cases hall : ((ts.map fun t => (t.poll op).2).all Task.done) = true
    · -- the step is finished in this poll: go on
      obtain ⟨i1, i2, i3⟩ := ih (ts.map (·.out))
      have hrest : ((ts.map fun t => (t.poll op).2).flatMap Task.allEvs) = [] := by
        simp only [List.all_eq_true, List.mem_map, forall_exists_index, and_imp, forall_apply_eq_imp_iff₂] at hall
        simp only [List.flatMap_eq_nil_iff, List.mem_map, forall_exists_index, and_imp, forall_apply_eq_imp_iff₂]
        intro t ht
        have := hall t ht
        simp only [Task.done, List.isEmpty_iff] at this
        simp [Task.allEvs, this]
      rw [hrest, List.append_nil] at hperm
      simp only [Plan.poll, Plan.canon, h3, h1, h2, hall, if_true, hout', hfs]
      refine ⟨?_, i2, i3⟩
      simp only [List.append_assoc]
      exact (List.Perm.append hperm (List.Perm.append_left _ i1))
    · simp only [Bool.not_eq_true] at hall
      have hs' : ∀ t ∈ (ts.map fun t => (t.poll op).2), stop t.out = false := by
        intro t ht
        obtain ⟨t0, ht0, rfl⟩ := List.mem_map.mp ht
        rw [Task.poll_out]; exact hs t0 ht0
      simp only [Plan.poll, Plan.canon, h3, h1, h2, hall, Bool.false_eq_true, if_false, hfs, hps' _ hs', hout']
      refine ⟨?_, trivial, .step stop onStop _ pre next hs' hnext⟩
      simp only [← List.append_assoc]
      exact List.Perm.append_right _ (List.Perm.append_right _ hperm)

/-- **Schedule independence and completion** (`join!` plans): under *every* schedule of gate openings — any order, any
    batches, spurious polls — the future completes as soon as it is polled with all gates open, with the canonical
    result, having emitted exactly the canonical events (each once), possibly in another order across branches. -/
theorem Plan.run_complete (gs : List Gates) (p : Plan ε α ρ) (hp : p.NoStop) :
    (p.run (gs ++ [allOpen])).2 = .done p.canon.2 ∧ (p.run (gs ++ [allOpen])).1.Perm p.canon.1 := by
  induction gs generalizing p with
  | nil =>
    simp [Plan.run, Plan.poll_allOpen]
  | cons g gs ih =>
    obtain ⟨c1, c2, c3⟩ := Plan.poll_canon g p hp
    obtain ⟨i1, i2⟩ := ih (p.poll g).2 c3
    simp only [List.cons_append, Plan.run]
    refine ⟨by rw [i1, c2], ?_⟩
    exact (List.Perm.append_left _ i2).trans c1

/-- **No lost wake-up, for the whole future.**  If a poll leaves the future pending, every gate it has registered
    its waker with is closed, and there is at least one: the future is never pending for no reason, and whichever
    operand becomes ready next, its gate is among the registered ones. -/
theorem Plan.pending_blocked (op : Gates) (p : Plan ε α ρ) (h : (p.poll op).2.isDone = false) :
    (p.poll op).2.wakeSet ≠ [] ∧ ∀ g ∈ (p.poll op).2.wakeSet, op g = false := by
  induction p with
  | done r => simp [Plan.poll, Plan.isDone] at h
  | step stop onStop ts pre next ih =>
    cases hst : (pollStep op stop ts).2.2 with
    | some a => simp [Plan.poll, hst, Plan.isDone] at h
    | none =>
      by_cases hall : ((pollStep op stop ts).2.1.all Task.done) = true
      · simp only [Plan.poll, hst, hall, if_true] at h ⊢
        exact ih _ h
      · have hb := pollStep_blocked op stop ts hst
        simp only [Plan.poll, hst, hall, Bool.false_eq_true, if_false, Plan.wakeSet]
        constructor
        · -- some operand is unfinished, and it waits on a gate
          have hall' : ((pollStep op stop ts).2.1.all Task.done) = false := by simpa using hall
          obtain ⟨t, ht, hnd⟩ := List.all_eq_false.mp hall'
          have hnd : t.done = false := by simpa using hnd
          rcases hb t ht with hd | ⟨g, hg, _⟩
          · rw [hd] at hnd; cases hnd
          · intro hnil
            have : g ∈ (pollStep op stop ts).2.1.filterMap Task.waitsOn := List.mem_filterMap.mpr ⟨t, ht, hg⟩
            rw [hnil] at this
            cases this
        · intro g hg
          obtain ⟨t, ht, hw⟩ := List.mem_filterMap.mp hg
          rcases hb t ht with hd | ⟨g', hg', hcl⟩
          · simp only [Task.done, List.isEmpty_iff] at hd
            simp [Task.waitsOn, hd] at hw
          · rw [hg'] at hw
            cases hw
            exact hcl

/-- **Laziness** in the model: a future that has not been polled has emitted nothing (`run []`) — all events come
    from polls. -/
theorem Plan.run_nil (p : Plan ε α ρ) : p.run [] = ([], p) := rfl

/-! ### Sequencing: what runs after the last step (the handler)

  `pl.bind k sm`: when `pl` ends normally with `r`, go on with the plan `(k r).2`, whose entry events `(k r).1` are
  emitted at that moment; when a step of `pl` stops early with `r`, the result is `sm r` and nothing else runs. -/

def Plan.bind : Plan ε α ρ → (ρ → List ε × Plan ε α ρ') → (ρ → ρ') → List ε × Plan ε α ρ'
  | .done r, k, _ => k r
  | .step stop onStop ts pre next, k, sm =>
    ([], .step stop (fun a => sm (onStop a)) ts (fun outs => pre outs ++ ((next outs).bind k sm).1)
      (fun outs => ((next outs).bind k sm).2))

/-- every early-stop result of the plan satisfies `P` -/
inductive Plan.AllStops (P : ρ → Prop) : Plan ε α ρ → Prop
  | done (r : ρ) : Plan.AllStops P (.done r)
  | step (stop : α → Bool) (onStop : α → ρ) (ts : List (Task ε α)) (pre : List α → List ε) (next : List α → Plan ε α ρ)
      (hs : ∀ a, P (onStop a)) (h : ∀ outs, Plan.AllStops P (next outs)) : Plan.AllStops P (.step stop onStop ts pre next)

/-- canonical run of a sequenced plan = canonical run of the first, then of the continuation -/
theorem Plan.bind_canon (P : ρ → Prop) (k : ρ → List ε × Plan ε α ρ') (sm : ρ → ρ')
    (hk : ∀ r, P r → k r = ([], .done (sm r))) (pl : Plan ε α ρ) (hP : pl.AllStops P) :
    (pl.bind k sm).1 ++ (pl.bind k sm).2.canon.1 = pl.canon.1 ++ (k pl.canon.2).1 ++ (k pl.canon.2).2.canon.1 ∧
    (pl.bind k sm).2.canon.2 = (k pl.canon.2).2.canon.2 := by
  induction hP with
  | done r => simp [Plan.bind, Plan.canon]
  | step stop onStop ts pre next hs _ ih =>
    simp only [Plan.bind, Plan.canon, List.nil_append]
    cases hfs : (firstStop stop ts).2 with
    | some a => simp [hk _ (hs a), Plan.canon]
    | none =>
      obtain ⟨i1, i2⟩ := ih (ts.map (·.out))
      simp only
      refine ⟨?_, i2⟩
      rw [List.append_assoc, List.append_assoc, i1]
      simp [List.append_assoc]

theorem Plan.bind_nostop (k : ρ → List ε × Plan ε α ρ') (sm : ρ → ρ') (hk : ∀ r, (k r).2.NoStop)
    (pl : Plan ε α ρ) (hp : pl.NoStop) : (pl.bind k sm).2.NoStop := by
  induction hp with
  | done r => exact hk r
  | step stop onStop ts pre next hs _ ih => exact Plan.NoStop.step _ _ _ _ _ hs ih

/-! ### A failed step aborts everything after it — under every schedule

  A step one of whose operands finishes with a stopping output (`try_join!`: a failure; any step: a panic) is never
  left normally: whatever gates are open at whatever polls, the future stays in this step or ends with the stop result
  of one of this step's stopping operands; only events of this step's operands are ever emitted — nothing of `pre`,
  nothing of `next` (later steps, the handler). -/

theorem pollStep_stop_some (op : Gates) (stop : α → Bool) (ts : List (Task ε α)) (a : α)
    (h : (pollStep op stop ts).2.2 = some a) : stop a = true ∧ a ∈ ts.map (·.out) := by
  induction ts with
  | nil => simp [pollStep] at h
  | cons t ts ih =>
    unfold pollStep at h
    split at h
    · rename_i hc
      simp only [Option.some.injEq] at h
      subst h
      simp only [Bool.and_eq_true] at hc
      exact ⟨hc.2, by simp [Task.poll_out]⟩
    · obtain ⟨h1, h2⟩ := ih h
      exact ⟨h1, List.mem_cons_of_mem _ h2⟩

theorem pollStep_stopper_not_all_done (op : Gates) (stop : α → Bool) (ts : List (Task ε α))
    (hst : ∃ t ∈ ts, stop t.out = true) (hn : (pollStep op stop ts).2.2 = none) :
    (pollStep op stop ts).2.1.all Task.done = false := by
  induction ts with
  | nil => obtain ⟨t, ht, _⟩ := hst; cases ht
  | cons t ts ih =>
    unfold pollStep at hn ⊢
    split at hn
    · cases hn
    · rename_i hc
      simp only [hc, Bool.false_eq_true, if_false, List.all_cons]
      obtain ⟨t0, ht0, hs0⟩ := hst
      rcases List.mem_cons.mp ht0 with rfl | ht0
      · -- the stopper is this operand: it cannot be finished, or the poll would have stopped here
        have : (t0.poll op).2.done = false := by
          cases hd : (t0.poll op).2.done with
          | false => rfl
          | true => simp [hd, Task.poll_out, hs0] at hc
        simp [this]
      · simp [ih ⟨t0, ht0, hs0⟩ hn]

theorem pollStep_events_in (op : Gates) (stop : α → Bool) (ts : List (Task ε α)) (S : ε → Prop)
    (hS : ∀ t ∈ ts, ∀ e ∈ t.allEvs, S e) :
    (∀ e ∈ (pollStep op stop ts).1, S e) ∧ (∀ t ∈ (pollStep op stop ts).2.1, ∀ e ∈ t.allEvs, S e) := by
  induction ts with
  | nil => exact ⟨fun e he => (by cases he), fun t ht => (by cases ht)⟩
  | cons t ts ih =>
    have hsplit := Task.poll_split op t
    have ht : ∀ e ∈ (t.poll op).1 ++ (t.poll op).2.allEvs, S e := by rw [hsplit]; exact hS t List.mem_cons_self
    obtain ⟨i1, i2⟩ := ih (fun t' ht' => hS t' (List.mem_cons_of_mem _ ht'))
    unfold pollStep
    split
    · refine ⟨fun e he => ht e (List.mem_append_left _ he), ?_⟩
      intro t' ht' e he
      rcases List.mem_cons.mp ht' with rfl | ht'
      · exact ht e (List.mem_append_right _ he)
      · exact hS t' (List.mem_cons_of_mem _ ht') e he
    · refine ⟨?_, ?_⟩
      · intro e he
        rcases List.mem_append.mp he with he | he
        · exact ht e (List.mem_append_left _ he)
        · exact i1 e he
      · intro t' ht' e he
        rcases List.mem_cons.mp ht' with rfl | ht'
        · exact ht e (List.mem_append_right _ he)
        · exact i2 t' ht' e he

/-- **A step with a stopping operand is never passed**, whatever the schedule. -/
theorem Plan.run_stopper (S : ε → Prop) (stop : α → Bool) (onStop : α → ρ) (pre : List α → List ε)
    (next : List α → Plan ε α ρ) (outs : List α) (hst : ∃ a ∈ outs, stop a = true) (gs : List Gates) :
    ∀ ts : List (Task ε α), ts.map (·.out) = outs → (∀ t ∈ ts, ∀ e ∈ t.allEvs, S e) →
      (∀ e ∈ ((Plan.step stop onStop ts pre next).run gs).1, S e) ∧
      ((∃ ts', ((Plan.step stop onStop ts pre next).run gs).2 = .step stop onStop ts' pre next) ∨
       (∃ a, ((Plan.step stop onStop ts pre next).run gs).2 = .done (onStop a) ∧ stop a = true ∧ a ∈ outs)) := by
  induction gs with
  | nil => intro ts _ _; exact ⟨fun e he => (by cases he), Or.inl ⟨ts, rfl⟩⟩
  | cons g gs ih =>
    intro ts houts hS
    have hstt : ∃ t ∈ ts, stop t.out = true := by
      obtain ⟨a, ha, hsa⟩ := hst
      rw [← houts] at ha
      obtain ⟨t, ht, rfl⟩ := List.mem_map.mp ha
      exact ⟨t, ht, hsa⟩
    obtain ⟨e1, e2⟩ := pollStep_events_in g stop ts S hS
    simp only [Plan.run, Plan.poll]
    cases hps : (pollStep g stop ts).2.2 with
    | some a =>
      obtain ⟨h1, h2⟩ := pollStep_stop_some g stop ts a hps
      simp only
      have hrun : ∀ (gs : List Gates) (r : ρ), (Plan.done r : Plan ε α ρ).run gs = ([], .done r) := by
        intro gs r
        induction gs with
        | nil => rfl
        | cons g gs ih2 => simp [Plan.run, Plan.poll, ih2]
      rw [hrun]
      refine ⟨by simpa using e1, Or.inr ⟨a, rfl, h1, by rw [← houts]; exact h2⟩⟩
    | none =>
      have hnd := pollStep_stopper_not_all_done g stop ts hstt hps
      simp only [hnd, Bool.false_eq_true, if_false]
      obtain ⟨i1, i2⟩ := ih (pollStep g stop ts).2.1 (by rw [pollStep_outs, houts]) e2
      refine ⟨?_, i2⟩
      intro e he
      rcases List.mem_append.mp he with he | he
      · exact e1 e he
      · exact i1 e he

/-- polled with every gate open at the end, the future is complete — for every plan and every schedule before that -/
theorem Plan.run_allOpen_done (gs : List Gates) : ∀ pl : Plan ε α ρ, ((pl.run (gs ++ [allOpen])).2).isDone = true := by
  induction gs with
  | nil => intro pl; simp [Plan.run, Plan.poll_allOpen, Plan.isDone]
  | cons g gs ih => intro pl; simp only [List.cons_append, Plan.run]; exact ih _

/-! ### The step barrier — under every schedule

  `lv` gives every event a level (its step number).  A plan is *leveled at `n`* when the events of its current step's
  operands have level `n`, the events emitted on entering the next step have level `n + 1`, and the rest of the plan is
  leveled at `n + 1`.  Then, whatever gates are open at whatever polls, the levels along the emitted events never
  decrease: nothing of step `n + 1` before every operand of step `n` has finished. -/

inductive Plan.Leveled (lv : ε → Nat) : Nat → Plan ε α ρ → Prop
  | done (n : Nat) (r : ρ) : Plan.Leveled lv n (.done r)
  /-- operands at level `n`, the events of entering the next step at `a ≥ n`, the rest of the plan at `b ≥ a` -/
  | step (n a b : Nat) (hna : n ≤ a) (hab : a ≤ b) (stop : α → Bool) (onStop : α → ρ) (ts : List (Task ε α))
      (pre : List α → List ε) (next : List α → Plan ε α ρ) (ht : ∀ t ∈ ts, ∀ e ∈ t.allEvs, lv e = n)
      (hp : ∀ outs, ∀ e ∈ pre outs, lv e = a)
      (hn : ∀ outs, Plan.Leveled lv b (next outs)) : Plan.Leveled lv n (.step stop onStop ts pre next)

theorem pairwise_const_level (lv : ε → Nat) (l : List ε) (k : Nat) (hl : ∀ e ∈ l, lv e = k) :
    (l.map lv).Pairwise (· ≤ ·) := by
  rw [List.pairwise_map]
  exact List.Pairwise.imp_of_mem (R := fun _ _ => True)
    (fun {a b} ha hb _ => by rw [hl a ha, hl b hb]; exact Nat.le_refl _) (List.pairwise_of_forall (fun _ _ => trivial))

theorem Plan.Leveled.poll (lv : ε → Nat) (op : Gates) {n : Nat} {pl : Plan ε α ρ} (h : pl.Leveled lv n) :
    ∃ m, n ≤ m ∧ (pl.poll op).2.Leveled lv m ∧ ((pl.poll op).1.map lv).Pairwise (· ≤ ·) ∧
      ∀ e ∈ (pl.poll op).1, n ≤ lv e ∧ lv e ≤ m := by
  induction h with
  | done n r => exact ⟨n, Nat.le_refl _, .done n r, by simp [Plan.poll], fun e he => by simp [Plan.poll] at he⟩
  | step n a b hna hab stop onStop ts pre next ht hp hn ih =>
    obtain ⟨e1, e2⟩ := pollStep_events_in op stop ts (fun e => lv e = n) ht
    have hconst : ∀ l : List ε, (∀ e ∈ l, lv e = n) → (l.map lv).Pairwise (· ≤ ·) := fun l hl => pairwise_const_level lv l n hl
    simp only [Plan.poll]
    cases hps : (pollStep op stop ts).2.2 with
    | some x =>
      exact ⟨n, Nat.le_refl _, .done n _, hconst _ e1, fun e he => by rw [e1 e he]; exact ⟨Nat.le_refl _, Nat.le_refl _⟩⟩
    | none =>
      simp only
      split
      · obtain ⟨m, hm, hl, hs, hb⟩ := ih ((pollStep op stop ts).2.1.map (·.out))
        refine ⟨m, by omega, hl, ?_, ?_⟩
        · rw [List.map_append, List.map_append, List.pairwise_append, List.pairwise_append]
          refine ⟨⟨hconst _ e1, pairwise_const_level lv _ a (hp _), ?_⟩, hs, ?_⟩
          · intro u hu v hv
            obtain ⟨x, hx, rfl⟩ := List.mem_map.mp hu
            obtain ⟨y, hy, rfl⟩ := List.mem_map.mp hv
            rw [e1 x hx, hp _ y hy]; omega
          · intro u hu v hv
            obtain ⟨y, hy, rfl⟩ := List.mem_map.mp hv
            have := (hb y hy).1
            rcases List.mem_append.mp hu with hu | hu
            · obtain ⟨x, hx, rfl⟩ := List.mem_map.mp hu; rw [e1 x hx]; omega
            · obtain ⟨x, hx, rfl⟩ := List.mem_map.mp hu; rw [hp _ x hx]; omega
        · intro e he
          rcases List.mem_append.mp he with he | he
          · rcases List.mem_append.mp he with he | he
            · rw [e1 e he]; omega
            · rw [hp _ e he]; omega
          · have := hb e he; omega
      · exact ⟨n, Nat.le_refl _, .step n a b hna hab stop onStop _ pre next e2 hp hn, hconst _ e1,
          fun e he => by rw [e1 e he]; exact ⟨Nat.le_refl _, Nat.le_refl _⟩⟩

/-- **Barrier, every schedule.**  Along any sequence of polls of a leveled plan the levels of the emitted events never
    decrease. -/
theorem Plan.Leveled.run (lv : ε → Nat) (gs : List Gates) : ∀ {n : Nat} {pl : Plan ε α ρ}, pl.Leveled lv n →
    ∃ m, n ≤ m ∧ (pl.run gs).2.Leveled lv m ∧ ((pl.run gs).1.map lv).Pairwise (· ≤ ·) ∧
      ∀ e ∈ (pl.run gs).1, n ≤ lv e ∧ lv e ≤ m := by
  induction gs with
  | nil => intro n pl h; exact ⟨n, Nat.le_refl _, h, by simp [Plan.run], fun e he => by simp [Plan.run] at he⟩
  | cons g gs ih =>
    intro n pl h
    obtain ⟨m1, hm1, hl1, hs1, hb1⟩ := h.poll lv g
    obtain ⟨m2, hm2, hl2, hs2, hb2⟩ := ih hl1
    refine ⟨m2, by omega, hl2, ?_, ?_⟩
    · simp only [Plan.run, List.map_append, List.pairwise_append]
      refine ⟨hs1, hs2, ?_⟩
      intro u hu v hv
      obtain ⟨x, hx, rfl⟩ := List.mem_map.mp hu
      obtain ⟨y, hy, rfl⟩ := List.mem_map.mp hv
      have := hb1 x hx; have := hb2 y hy; omega
    · intro e he
      simp only [Plan.run] at he
      rcases List.mem_append.mp he with he | he
      · have := hb1 e he; omega
      · have := hb2 e he; omega

/-- every event the plan can ever emit satisfies `P` -/
inductive Plan.EvAll (P : ε → Prop) : Plan ε α ρ → Prop
  | done (r : ρ) : Plan.EvAll P (.done r)
  | step (stop : α → Bool) (onStop : α → ρ) (ts : List (Task ε α)) (pre : List α → List ε) (next : List α → Plan ε α ρ)
      (ht : ∀ t ∈ ts, ∀ e ∈ t.allEvs, P e) (hp : ∀ outs, ∀ e ∈ pre outs, P e)
      (hn : ∀ outs, Plan.EvAll P (next outs)) : Plan.EvAll P (.step stop onStop ts pre next)

theorem Plan.EvAll.poll (P : ε → Prop) (op : Gates) {pl : Plan ε α ρ} (h : pl.EvAll P) :
    (∀ e ∈ (pl.poll op).1, P e) ∧ (pl.poll op).2.EvAll P := by
  induction h with
  | done r => exact ⟨fun e he => by simp [Plan.poll] at he, .done r⟩
  | step stop onStop ts pre next ht hp hn ih =>
    obtain ⟨e1, e2⟩ := pollStep_events_in op stop ts P ht
    simp only [Plan.poll]
    cases hps : (pollStep op stop ts).2.2 with
    | some a => exact ⟨e1, .done _⟩
    | none =>
      simp only
      split
      · obtain ⟨i1, i2⟩ := ih ((pollStep op stop ts).2.1.map (·.out))
        refine ⟨?_, i2⟩
        intro e he
        rcases List.mem_append.mp he with he | he
        · rcases List.mem_append.mp he with he | he
          · exact e1 e he
          · exact hp _ e he
        · exact i1 e he
      · exact ⟨e1, .step stop onStop _ pre next e2 hp hn⟩

theorem Plan.EvAll.run (P : ε → Prop) (gs : List Gates) : ∀ {pl : Plan ε α ρ}, pl.EvAll P →
    (∀ e ∈ (pl.run gs).1, P e) ∧ (pl.run gs).2.EvAll P := by
  induction gs with
  | nil => intro pl h; exact ⟨fun e he => by simp [Plan.run] at he, h⟩
  | cons g gs ih =>
    intro pl h
    obtain ⟨p1, p2⟩ := h.poll P g
    obtain ⟨i1, i2⟩ := ih p2
    refine ⟨?_, i2⟩
    intro e he
    simp only [Plan.run] at he
    rcases List.mem_append.mp he with he | he
    · exact p1 e he
    · exact i1 e he

end JoinModel
