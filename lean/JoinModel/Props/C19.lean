/-
  C19 — no hidden costs: no allocation, no Clone, no Send/'static unless spawning.
  Syntactic statements about the code every non-spawning configuration produces (∀ programs).  Whether rustc
  accepts a given borrowing program and what the allocator does are type-system / run-time facts: K2 compiles and
  runs move-only, `Rc`, `&` and `&mut` programs and counts allocations around sequential evaluations.
-/
import JoinModel.Lemmas.PrintCount
import JoinModel.Lemmas.ParseInit
import JoinModel.Props.C17
import JoinModel.Lemmas.GenFacts
import JoinModel.Print
namespace JoinModel.Props.C19
open JoinModel

/-- Without `spawn` no operand is wrapped into a thread spawn or a tokio spawn, there are no thread builders and no
    handle joins: a step is lets, a tuple (or the joiner application) and the chains themselves. -/
theorem no_spawn_constructs_unless_spawning (c : Ctx) (k : Nat) (s : StepCode) (h : genStep c k = .ok s)
    (hns : c.kind.isSpawn = false) :
    s.tbs = [] ∧ s.spawnJoin = none ∧ ∀ e ∈ s.elems, e.wrap = .plain := by
  unfold genStep at h
  split at h
  · cases h
  · rename_i defs elems hel
    cases h
    refine ⟨by simp [hns], by simp [hns], ?_⟩
    obtain ⟨_, he⟩ := genElems_spec c k (c.stepActs k) 0 defs elems hel
    intro e hmem
    have : e.sem ∈ elems.map Elem.sem := List.mem_map.mpr ⟨e, hmem, rfl⟩
    rw [he] at this
    obtain ⟨ab, _, hab⟩ := List.mem_map.mp this
    have hw : e.wrap = c.wrapOf k ab.2 := by
      have := congrArg (fun (t : Nat × Bool × ElemWrap × Var × List Member) => t.2.2.1) hab
      simpa [Elem.sem] using this.symm
    rw [hw]
    simp [Ctx.wrapOf, hns]

/-- Operands are `move ||` closures only when `lazy_branches` is on (default: thread-spawning macros only) — so the
    sequential macros do not move their environment and may borrow from the caller's stack. -/
theorem no_move_closures_unless_lazy (c : Ctx) (k : Nat) (s : StepCode) (h : genStep c k = .ok s) (hl : c.lazy = false) :
    ∀ e ∈ s.elems, e.lazy = false := by
  unfold genStep at h
  split at h
  · cases h
  · rename_i defs elems hel
    cases h
    obtain ⟨_, he⟩ := genElems_spec c k (c.stepActs k) 0 defs elems hel
    intro e hmem
    have : e.sem ∈ elems.map Elem.sem := List.mem_map.mpr ⟨e, hmem, rfl⟩
    rw [he] at this
    obtain ⟨ab, _, hab⟩ := List.mem_map.mp this
    have := congrArg (fun (t : Nat × Bool × ElemWrap × Var × List Member) => t.2.1) hab
    simp only [Elem.sem] at this
    rw [← this, hl]; simp

/-- default laziness is off for every macro that does not spawn threads -/
theorem lazy_default_off (p : Input) (kind : Kind) (c : Ctx) (h : mkCtx p kind = .ok c) (hl : p.lazy = none)
    (hk : kind.isSpawn = false ∨ kind.isAsync = true) : c.lazy = false := by
  unfold mkCtx at h
  split at h
  · cases h
  · split at h
    · cases h
    · split at h
      · cases h
      · split at h
        · cases h
        · cases h
          rcases hk with hk | hk <;> simp [hl, hk]

/-- The sequential expansion is one block: the inspect helper (bound `impl Fn(&I)` only), the thread-builder helper
    only when spawning, the handler binding, the steps, the handler call.  No `Box::pin`, no `async` frame. -/
theorem sync_frame (c : Code) (ha : c.kind.isAsync = false) :
    printCode c = [brace (Templates.fnInspect ++ (if c.kind.isSpawn then Templates.fnTb else []) ++
      ((match c.handlerDef with
        | some h => [kw "let", Var.h.tok, pu '='] ++ h ++ [pu ';']
        | none => []) ++ [kw "let", Var.rs.tok, pu '=', brace (printSteps c.steps), pu ';'] ++
      printHandle false c.handle))] := by
  simp only [printCode, ha, Bool.false_eq_true, if_false]
  cases c.handlerDef <;> rfl

/-- `Send + 'static` bounds are written only in the `__spawn_tokio` helper, which is emitted only by the
    task-spawning macros; `Box::pin` only by the async macros. -/
theorem bounds_only_when_spawning (c : Code) (ha : c.kind.isAsync = true) :
    printCode c = [kw "Box"] ++ pathSep ++ [kw "pin", paren [kw "async", kw "move",
      brace (useFutures (c.fcp.getD []) ++ (if c.kind.isSpawn then fnSpawnTokio (c.fcp.getD []) else []) ++
        ((match c.handlerDef with
          | some h => [kw "let", Var.h.tok, pu '='] ++ h ++ [pu ';']
          | none => []) ++ [kw "let", Var.rs.tok, pu '=', brace (printSteps c.steps), pu ';'] ++
        printHandle true c.handle))]] := by
  simp only [printCode, ha, if_true]
  cases c.handlerDef <;> rfl

/-- Non-vacuity: a three-branch program with depths (1, 3, 2); for `join!` its context exists, is not lazy, every step
    generates, and the step has two or more elements (so the conclusions talk about something); for `join_spawn!` the same
    program does get thread builders — the hypothesis `isSpawn = false` is what removes them. -/
def costProg : Input :=
  let ini : Member := ⟨.initial, false, .none, [⟨.expr, []⟩]⟩
  let stp : Member := ⟨.map, true, .none, [⟨.expr, []⟩]⟩
  { branches := [⟨none, [ini]⟩, ⟨none, [ini, stp, stp]⟩, ⟨none, [ini, stp]⟩] }

example : (match mkCtx costProg ⟨false, false, false⟩ with
    | .ok c => (c.lazy == false) && (match genStep c 1 with
        | .ok s => s.elems.length == 2 && s.tbs.isEmpty && s.spawnJoin.isNone
        | .error _ => false)
    | .error _ => false) = true := by rfl

example : (match mkCtx costProg ⟨false, false, true⟩ with
    | .ok c => (match genStep c 1 with
        | .ok s => s.elems.length == 2 && s.tbs.length == 2 && s.spawnJoin.isSome
        | .error _ => false)
    | .error _ => false) = true := by rfl

/-! ### the expansion adds no `clone`, `Arc`, `Rc`, `Mutex`, `boxed` of its own -/

/-- a word that is neither a template / printer word nor an internal name (internal names start with `__`, Props/C17) -/
theorem pmarker_of (w : String) (hu : UserIdent w) (h0 : ¬ ∃ rest, w.toList = '_' :: '_' :: rest) (h1 : "inspect" ≠ w)
    (h2 : "async" ≠ w) (h3 : "move" ≠ w) (h4 : w ∉ printerWords) (h5 : cntToks w Templates.fnInspect = 0)
    (h6 : cntToks w Templates.fnTb = 0) : PMarker w :=
  { user := hu, notInternal := fun v hv heq => h0 (by
      obtain ⟨rest, hr⟩ := C17.internal_starts_with_underscores v hv
      exact ⟨rest, by rw [← heq]; exact hr⟩),
    notInspect := h1, notAsync := h2, notMove := h3, words := h4, inspectFn := h5, tbFn := h6 }


theorem pm_clone : PMarker "clone" :=
  pmarker_of _ (by decide) (by simp) (by decide) (by decide) (by decide) (by decide) (by decide) (by decide)
theorem pm_arc : PMarker "Arc" :=
  pmarker_of _ (by decide) (by simp) (by decide) (by decide) (by decide) (by decide) (by decide) (by decide)
theorem pm_rc : PMarker "Rc" :=
  pmarker_of _ (by decide) (by simp) (by decide) (by decide) (by decide) (by decide) (by decide) (by decide)
theorem pm_mutex : PMarker "Mutex" :=
  pmarker_of _ (by decide) (by simp) (by decide) (by decide) (by decide) (by decide) (by decide) (by decide)
theorem pm_boxed : PMarker "boxed" :=
  pmarker_of _ (by decide) (by simp) (by decide) (by decide) (by decide) (by decide) (by decide) (by decide)

/-- **Every `clone` / `Arc` / `Rc` / `Mutex` / `boxed` in an expansion was written by the caller**: for every program the
    generator accepts — any macro kind, any size, wrappers, block operands, handler — the number of occurrences of each of
    these words in the emitted token stream equals their number in the operands and the handler the caller wrote (the
    `let` patterns, the joiner and the futures path not mentioning the word).  The macro never clones, reference-counts,
    locks or boxes a value on its own account (the one `Box::pin` of the async macros is the documented outer frame). -/
theorem no_hidden_cost_words (w : String) (hw : w ∈ ["clone", "Arc", "Rc", "Mutex", "boxed"]) (p : Input) (kind : Kind)
    (code : Code) (h : gen p kind = .ok code) (hinit : InitialOnlyFirst p) (ho : OtherTokensFree w p) :
    cntToks w (printCode code) = cntProgram w p + cntToks w ((p.handler.map (·.2)).getD []) := by
  have hm : PMarker w := by
    simp only [List.mem_cons, List.mem_nil_iff, or_false] at hw
    rcases hw with rfl | rfl | rfl | rfl | rfl
    · exact pm_clone
    · exact pm_arc
    · exact pm_rc
    · exact pm_mutex
    · exact pm_boxed
  exact expansion_count hm p kind code h hinit ho

/-- …for whatever the parser accepts -/
theorem accepted_no_hidden_clone (o : Oracle) (toks : Toks) (p : Input) (kind : Kind) (code : Code)
    (hparse : parseMacroInput o toks = .ok p) (h : gen p kind = .ok code) (ho : OtherTokensFree "clone" p) :
    cntToks "clone" (printCode code) = cntProgram "clone" p + cntToks "clone" ((p.handler.map (·.2)).getD []) :=
  no_hidden_cost_words "clone" (by simp) p kind code h (parse_initial_only_first o toks p hparse) ho

end JoinModel.Props.C19
