"""K2-async: the async / task-spawning macros compiled and run on a deterministic executor (plain async) or a
current-thread tokio runtime (task-spawning), with manually opened gates.

Oracle (property level, Python): laziness (no event before the first poll), step barrier, values equal to the reference
semantics of the sync counterpart (try failure: any failing chain of the earliest failing step), every gate opening
wakes the root future, completion as soon as every gate reached is open, under the chosen opening order, batches and
spurious polls.  The async semantics of `async`/`.await`, futures::join!/try_join! and tokio are *observed*, not modelled.
"""
import re

import k1
import k2
import runner

PRELUDE_ASYNC = r'''
use futures::future::{BoxFuture, FutureExt, TryFutureExt, ready};
use std::future::Future;
use std::pin::Pin;
use std::sync::Arc;
use std::sync::atomic::{AtomicBool, AtomicUsize, Ordering};
use std::task::{Context, Poll, Wake, Waker};

pub struct Gate { id: u32, open: AtomicBool, waker: Mutex<Option<Waker>> }
static AGATES: Mutex<Vec<Arc<Gate>>> = Mutex::new(Vec::new());
fn the_gate(id: u32) -> Arc<Gate> {
    let mut g = AGATES.lock().unwrap_or_else(|e| e.into_inner());
    if let Some(x) = g.iter().find(|x| x.id == id) { return x.clone(); }
    let x = Arc::new(Gate { id, open: AtomicBool::new(false), waker: Mutex::new(None) });
    g.push(x.clone()); x
}
pub struct GateFut(Arc<Gate>);
impl Future for GateFut {
    type Output = ();
    fn poll(self: Pin<&mut Self>, cx: &mut Context<'_>) -> Poll<()> {
        if self.0.open.load(Ordering::SeqCst) { Poll::Ready(()) }
        else { log(format!("wait:{}", self.0.id)); *self.0.waker.lock().unwrap() = Some(cx.waker().clone()); Poll::Pending }
    }
}
/// a self-waking pending point (`yield_now`): the first poll wakes the task *during that poll* and returns Pending; every
/// later poll is ready.  (Gate ids whose last three digits are 800..999.)
pub struct YieldFut(Arc<Gate>);
static LAST_YIELD: AtomicUsize = AtomicUsize::new(0);
impl Future for YieldFut {
    type Output = ();
    fn poll(self: Pin<&mut Self>, cx: &mut Context<'_>) -> Poll<()> {
        if self.0.open.load(Ordering::SeqCst) { Poll::Ready(()) }
        else { log(format!("wait:{}", self.0.id)); self.0.open.store(true, Ordering::SeqCst);
               LAST_YIELD.store(self.0.id as usize, Ordering::SeqCst); cx.waker().wake_by_ref(); Poll::Pending }
    }
}
/// a pending point: ready once gate `id` has been opened (id 0: always ready)
pub fn gate(id: u32) -> BoxFuture<'static, ()> {
    if id == 0 { ready(()).boxed() } else if id % 1000 >= 800 { YieldFut(the_gate(id)).boxed() } else { GateFut(the_gate(id)).boxed() } }
pub fn open_gate(id: u32) { let g = the_gate(id); g.open.store(true, Ordering::SeqCst); log(format!("open:{}", id));
    let w = g.waker.lock().unwrap().take();
    if let Some(w) = w { w.wake(); } }
pub fn ainit(id: u32, out: Out, g: u32) -> BoxFuture<'static, R> { async move { gate(g).await; init(id, out) }.boxed() }
pub fn amapf(id: u32, out: Out) -> impl FnOnce(R) -> R + Send + 'static { move |r: R| r.map(|v| fmap(id, out)(v)) }
pub fn aandf(id: u32, out: Out, g: u32) -> impl FnOnce(i64) -> BoxFuture<'static, R> + Send + 'static {
    move |v| async move { gate(g).await; fand(id, out)(v) }.boxed() }
pub fn athenf<F: Future<Output = R> + Send + 'static>(id: u32, out: Out, g: u32) -> impl FnOnce(F) -> BoxFuture<'static, R> + Send + 'static {
    move |f| async move { let r = f.await; gate(g).await; fthen(id, out)(r) }.boxed() }
pub fn ainsf(id: u32, out: Out) -> impl FnOnce(&R) + Send + 'static { move |r: &R| fins(id, out)(r) }
pub fn aorelsef(id: u32, out: Out, g: u32) -> impl FnOnce(i64) -> BoxFuture<'static, R> + Send + 'static {
    move |e| async move { gate(g).await; forelse(id, out)(e) }.boxed() }
pub fn amaperrf(id: u32, out: Out) -> impl FnOnce(i64) -> i64 + Send + 'static { move |e| fmaperr(id, out)(e) }

struct CountWaker(AtomicUsize);
impl Wake for CountWaker { fn wake(self: Arc<Self>) { self.0.fetch_add(1, Ordering::SeqCst); } fn wake_by_ref(self: &Arc<Self>) { self.0.fetch_add(1, Ordering::SeqCst); } }

/// deterministic executor: poll, then open the next batch of gates (an empty batch = spurious poll), poll, …
pub fn drive<T: Show, F: Future<Output = T>>(fut: F, schedule: &[&[u32]]) -> String {
    let mut fut = Box::pin(fut);
    let cw = Arc::new(CountWaker(AtomicUsize::new(0)));
    let waker = Waker::from(cw.clone());
    let mut cx = Context::from_waker(&waker);
    log("created".to_string());
    let mut i = 0;
    loop {
        log("poll".to_string());
        LAST_YIELD.store(0, Ordering::SeqCst);
        let woken_before = cw.0.load(Ordering::SeqCst);
        match fut.as_mut().poll(&mut cx) {
            Poll::Ready(v) => { log("ready".to_string()); return format!("ok {}", v.show()); }
            Poll::Pending => {
                // a pending point that woke its task during this very poll must have woken the macro's future
                let y = LAST_YIELD.load(Ordering::SeqCst);
                if y != 0 && cw.0.load(Ordering::SeqCst) == woken_before { log(format!("lostwake:{}", y)); }
                if i >= schedule.len() { log("stuck".to_string()); return "STUCK".to_string(); }
                for g in schedule[i] {
                    let before = cw.0.load(Ordering::SeqCst);
                    let had_waiter = { let gg = the_gate(*g); let x = gg.waker.lock().unwrap().is_some(); x };
                    open_gate(*g);
                    let after = cw.0.load(Ordering::SeqCst);
                    if had_waiter && after == before { log(format!("lostwake:{}", g)); }
                }
                i += 1;
            }
        }
    }
}
/// task-spawning macros: a current-thread tokio runtime; a controller task opens the gates in order
pub fn drive_tokio<T: Show, F: Future<Output = T>>(mk: impl FnOnce() -> F, schedule: Vec<Vec<u32>>) -> String {
    let rt = tokio::runtime::Builder::new_current_thread().enable_all().build().unwrap();
    rt.block_on(async move {
        let fut = mk();
        log("created".to_string());
        let ctl = tokio::spawn(async move {
            // between two batches every task gets enough scheduling rounds to run as far as its gates allow (quiescence)
            for (i, batch) in schedule.into_iter().enumerate() {
                for _ in 0..24 { tokio::task::yield_now().await; }
                log(format!("batch:{}", i));
                for g in batch { open_gate(g); }
            }
        });
        log("poll".to_string());
        let r = tokio::time::timeout(std::time::Duration::from_secs(10), fut).await;
        let _ = ctl.await;
        match r { Ok(v) => { log("ready".to_string()); format!("ok {}", v.show()) } Err(_) => "STUCK".to_string() }
    })
}
'''

MAIN_ASYNC = r'''
fn main() {
    std::panic::set_hook(Box::new(|_| {}));
    let progs: Vec<(&str, fn() -> String)> = vec![%s];
    for (name, f) in progs {
        take_log();
        let (tx, rx) = std::sync::mpsc::channel();
        std::thread::Builder::new().name("main".to_string()).spawn(move || { let r = f(); let _ = tx.send(r); }).unwrap();
        match rx.recv_timeout(std::time::Duration::from_secs(30)) {
            Ok(res) => println!("{}\t{}\t{}", name, res, take_log()),
            Err(_) => { println!("{}\tBLOCKED\t{}", name, take_log()); continue; }
        }
        // `…_2` programs: the same call site once more (its gates are open by now; the task-spawning kinds get a new tokio
        // runtime): it must return what it returned the first time
        if name.ends_with("_2") {
            let (tx, rx) = std::sync::mpsc::channel();
            std::thread::Builder::new().name("main".to_string()).spawn(move || { let r = f(); let _ = tx.send(r); }).unwrap();
            match rx.recv_timeout(std::time::Duration::from_secs(30)) {
                Ok(res) => println!("{}#2\t{}\t{}", name, res, take_log()),
                Err(_) => println!("{}#2\tBLOCKED\t{}", name, take_log()),
            }
        }
    }
}
'''


class AProg(k2.Prog):
    """Scaffold program for an async kind: every fallible / initial operator may carry a gate."""

    def __init__(self, pid, kind, name):
        k2.Prog.__init__(self, pid, kind, name)
        self.schedule = []

    def no_runtime(self):
        """A task-spawning program with a single branch never spawns (every step has one active branch and is awaited in
        place, exactly as in the plain async macro): it must run on any executor, also outside a tokio runtime."""
        return self.is_spawn() and len(self.branches) == 1

    def operand_src(self, op, k):
        g = getattr(op, "agate", 0)
        g = g + self.base if g else 0
        i = op.cb + self.base if op.cb else 0
        o = self.out_src(op.out)
        call = {
            "init": "ainit(%d, %s, %d)" % (i, o, g),
            "map": "amapf(%d, %s)" % (i, o),
            "andThen": "aandf(%d, %s, %d)" % (i, o, g),
            "then": "athenf(%d, %s, %d)" % (i, o, g),
            "inspect": "ainsf(%d, %s)" % (i, o),
            "orElse": "aorelsef(%d, %s, %d)" % (i, o, g),
            "mapErr": "amaperrf(%d, %s)" % (i, o),
        }[op.mode]
        if op.block:
            vis = ", ".join('("%s", %s.show())' % (n, n) for n in self.visible_names(k))
            return "{ %s(%d, &[%s]); %s }" % ("capp" if op.cap_panics else "cap", op.cap_id + self.base, vis, call)
        return call

    def world_gated(self):
        """the world description with the gate of every gated operator (`mode:cb:outcome:gate`)"""
        w = self.world()
        gates = {}
        for br in self.branches:
            for op in br["ops"]:
                if getattr(op, "agate", 0) and op.cb:
                    gates[op.cb] = op.agate
        def fix(m):
            cb = int(m.group(2))
            return m.group(0) + (":%d" % gates[cb] if cb in gates else "")
        w = re.sub(r"(init|map|andThen|then|inspect|orElse|mapErr):(\d+):(?:ok|fail|panic)=-?\d+", fix, w)
        if self.handler and self.handler.get("gate"):
            w += ";hg %d" % self.handler["gate"]
        return w

    def handler_src(self):
        h = self.handler
        n = len(self.branches)
        ty = "i64" if self.is_try() else "R"
        args = ", ".join("a%d: %s" % (i, ty) for i in range(n))
        shown = "format!(\"(%s)\", %s)" % (",".join("{}" for _ in range(n)), ", ".join("a%d.show()" % i for i in range(n)))
        fn = "hcallr" if h["kind"] == "and_then" else "hcall"
        body = "%s(%d, %s, %s)" % (fn, h["id"] + self.base, shown, self.out_src(h["out"]))
        if h["kind"] in ("then", "and_then"):
            if h.get("gate"):
                # the handler runs when it is called; the future it returns waits for a gate before it yields the value
                body = "{ let __hr = %s; async move { gate(%d).await; __hr } }" % (body, h["gate"] + self.base)
            else:
                body = "ready(%s)" % body          # the value the handler returns is awaited
        clo = "|%s| %s" % (args, body)
        if h.get("block"):
            clo = "{ hdef(%d, %s); %s }" % (h["id"] + self.base, self.out_src(h.get("def_out", ("ok", 0))), clo)
        return "%s => %s" % (h["kind"], clo)

    def macro_input(self):
        items = []
        for b, br in enumerate(self.branches):
            head = ""
            if br["name"]:
                head = "let %s%s = " % ("mut " if br.get("mut") else "", br["name"])
            k = 0
            parts = []
            for op in br["ops"]:
                if op.deferred:
                    k += 1
                parts.append(self.op_src(op, k))
            items.append(head + " ".join(parts))
        if self.handler:
            items.insert(min(self.handler.get("pos", len(items)), len(items)), self.handler_src())
        return (" ".join(self.opts) + " " if self.opts else "") + ", ".join(items)

    def rust_fn(self):
        sched = [[g + self.base for g in batch] for batch in self.schedule]
        inv = self.invocation()
        if self.is_spawn() and not self.no_runtime():
            run = "drive_tokio(move || %s, vec![%s])" % (inv, ", ".join("vec![%s]" % ", ".join(map(str, b)) for b in sched))
        else:
            run = "drive(%s, &[%s])" % (inv, ", ".join("&[%s]" % ", ".join(map(str, b)) for b in sched))
        return ("fn %s() -> String {\n    let r = std::panic::catch_unwind(|| { %s });\n"
                "    match r { Ok(s) => s, Err(e) => format!(\"panic {}\", panic_text(e)) }\n}\n" % (self.pid, run))


def gen_async(rng, pid, kind, no_gates=False, **kw):
    base = k2.gen_scaffold(rng, pid, kind, **kw)
    p = AProg(pid, kind, base.name)
    p.branches, p.handler = base.branches, base.handler
    # gates on some of the operators that are futures themselves
    gid = 0
    gates = []
    yields = []
    for br in p.branches:
        for op in br["ops"]:
            if (not no_gates and op.mode in ("init", "andThen", "then", "orElse") and not (op.mode == "init" and op.block)
                    and rng.chance(1, 2)):
                gid += 1
                if kind[5] == "0" and rng.chance(1, 3):
                    # a self-waking pending point (woken during its own poll); opened by nobody
                    op.agate = 800 + gid
                    yields.append(op.agate)
                else:
                    op.agate = 500 + gid
                    gates.append(op.agate)
    # the future an async `then` / `and_then` handler returns may wait for a gate of its own
    if not no_gates and p.handler and p.handler["kind"] in ("then", "and_then") and rng.chance(1, 2):
        gid += 1
        p.handler["gate"] = 500 + gid
        gates.append(p.handler["gate"])
    # opening order: a random permutation, split into batches, with a few spurious polls (empty batches)
    order = rng.shuffle(gates)
    sched = []
    while order:
        n = 1 + rng.below(2) if rng.chance(1, 3) else 1
        sched.append(order[:n])
        order = order[n:]
        if rng.chance(1, 4):
            sched.append([])
    sched.append([])
    sched.append([])
    # every self-waking point costs one more poll
    sched += [[] for _ in yields]
    p.schedule = sched
    p.yields = yields
    p.no_gates = no_gates
    return p


def effective_schedule(p, rust_line):
    """A self-waking pending point first met in poll k is ready from poll k+1 on: for the poll-level model it is a gate opened
    in batch k.  The poll in which each one was met is read from the real run's log."""
    sched = [list(b) for b in p.schedule]
    f = rust_line.split("\t")
    k = -1
    for (t, tn, tid) in k2.parse_rust_events(f[1] if len(f) > 1 else "", p.base):
        if t == "poll":
            k += 1
        m = re.match(r"wait:(\d+)$", t)
        if m and k >= 0:
            g = int(m.group(1)) - p.base
            if g in p.yields and not any(g in b for b in sched):
                while len(sched) <= k:
                    sched.append([])
                sched[k].append(g)
    return sched


def sync_kind(kind):
    return "a0" + kind[2:4] + "s0"


def judge(p, rust_line, spec_line):
    """Property-level oracle for one async program.  Returns list of problems."""
    problems = []
    f = rust_line.split("\t")
    res = f[0]
    evs = k2.parse_rust_events(f[1] if len(f) > 1 else "", p.base)
    texts = []
    for (t, tn, tid) in evs:
        m = re.match(r"(wait|open|lostwake):(\d+)$", t)
        if m:
            g = int(m.group(2))
            if not (p.base <= g < p.base + 1000):
                continue
            t = "%s:%d" % (m.group(1), g - p.base)
        texts.append(t)
    if res in ("BLOCKED", "STUCK"):
        problems.append("the future did not complete although every gate was opened (%s): %s" % (res, " ".join(texts[-12:])))
        return problems
    # laziness: nothing between creation and the first poll, and nothing before creation
    if "created" in texts:
        ci = texts.index("created")
        if ci != 0:
            problems.append("events before the macro's future existed / was polled: %r" % texts[:ci])
        if len(texts) > ci + 1 and texts[ci + 1] != "poll":
            problems.append("something ran before the first poll: %r" % texts[ci + 1])
    if any(t.startswith("lostwake:") for t in texts):
        problems.append("a gate opening did not wake the macro's future: %r" % [t for t in texts if t.startswith("lostwake:")])
    # value
    s_res, s_main, s_forks = k2.lean_flat(spec_line, p)
    i_res = k2.normalize_panic(res, p.base)
    ends = re.findall(r"ce:(\d+):(\d+):(\S+)", spec_line)
    if (i_res != s_res and s_res.startswith("ok F(") and p.is_try() and any(v.startswith("F(") for (b, k, v) in ends)
            and not getattr(p, "no_gates", False)):
        # a branch fails: earliest failing step of the reference; any failing chain of that step may win the race
        # (a failure returned by an `and_then` handler after all branches succeeded is not a race: plain comparison)
        fail_steps = [int(k) for (b, k, v) in ends if v.startswith("F(")]
        j = min(fail_steps) if fail_steps else None
        allowed = set("ok " + v for (b, k, v) in ends if v.startswith("F(") and int(k) == j)
        if i_res not in allowed:
            problems.append("result %r is not the failure of a branch failing in the earliest failing step (allowed %r)" % (i_res, sorted(allowed)))
    elif i_res != s_res:
        problems.append("result: implementation %r, reference semantics (sync counterpart) %r%s" % (i_res, s_res,
                        " (no pending point anywhere: every chain is ready when first polled, so the plain async try macro returns "
                        "the failure of the first failing branch of the step, and its task-spawning counterpart must return the same)"
                        if getattr(p, "no_gates", False) else ""))
    # barrier + no later step
    caps, cbs = p.cap_positions()
    last = -1
    for t in texts:
        st = None
        if t.startswith("cb:"):
            st = cbs.get(int(t[3:]), (None, None))[1]
        elif t.startswith("cap:"):
            st = caps.get(int(t.split(":")[1]), (None, None))[1]
        if st is None:
            continue
        if st < last:
            problems.append("event %s of step %d after an event of step %d" % (t, st, last))
            break
        last = max(last, st)
    # per chain: callbacks are a prefix of the reference's (complete unless the run failed / panicked in that step)
    exp = {}
    for w in spec_line.split("\t")[1].split(" ") if "\t" in spec_line else []:
        if w.startswith("cb:"):
            b, k, i = w.split(":")[1:4]
            if int(i):
                exp.setdefault((int(b), int(k)), []).append(int(i))
    got = {}
    for t in texts:
        if t.startswith("cb:") and int(t[3:]) in cbs:
            got.setdefault(cbs[int(t[3:])], []).append(int(t[3:]))
    failing_step = None
    if not s_res.startswith("ok S(") and not s_res.startswith("ok T(") and not re.match(r"ok -?\d+$", s_res):
        fs = [int(k) for (b, k, v) in ends if v.startswith("F(")] if p.is_try() else []
        failing_step = min(fs) if fs else max([k for (_, k) in exp] or [0])
    for key, ids in got.items():
        e = exp.get(key, [])
        if ids != e[:len(ids)]:
            problems.append("chain (branch %d, step %d) ran callbacks %r, reference %r" % (key[0], key[1], ids, e))
    for key, e in exp.items():
        if failing_step is not None and key[1] >= failing_step:
            continue
        if got.get(key, []) != e:
            problems.append("chain (branch %d, step %d) ran %r, reference %r" % (key[0], key[1], got.get(key, []), e))
    return problems[:4]


def poll_diff(p, rust_line, model_line):
    """Events per poll: the real future on the deterministic executor vs the poll-level model.  Returns a description of the
    first difference or None."""
    f = rust_line.split("\t")
    if f[0] in ("BLOCKED", "MISSING"):
        return None
    real_polls, cur = [], None
    for (t, tn, tid) in k2.parse_rust_events(f[1] if len(f) > 1 else "", p.base):
        if t == "poll":
            cur = []
            real_polls.append(cur)
        elif cur is not None and (t.startswith(("cb:", "cap:", "hc:")) or t == "hd"):
            cur.append(t)
    mf = model_line.split("\t")
    m_res = mf[0]
    m_polls = [k2.lean_flat("x\t" + seg, p)[1] for seg in (mf[1].split(" | ") if len(mf) > 1 else [])]
    i_res = k2.normalize_panic(f[0], p.base)
    if f[0] == "STUCK":
        return None if m_res == "PENDING" else "the real future was still pending after the schedule, the model says %s" % m_res
    if m_res == "PENDING":
        return "the model is still pending after the schedule, the real future returned %s" % i_res
    if k2.lean_flat(m_res + "\t", p)[0] != i_res:
        return "result: real %r, model %r" % (i_res, m_res)
    if len(real_polls) != len(m_polls):
        return "number of polls until completion: real %d, model %d" % (len(real_polls), len(m_polls))
    for i, (a, b) in enumerate(zip(real_polls, m_polls)):
        if a != b:
            return "poll %d: real %r, model %r" % (i, a, b)
    return None


def batch_diff(p, rust_line, model_line):
    """Task-spawning kinds on tokio, programs in which nothing fails: the events between two batches of gate openings, as a
    multiset, vs the poll-level model's events of the corresponding poll (every chain runs as far as its own gates allow,
    whatever its siblings wait for).  Returns a description of the first difference or None."""
    f = rust_line.split("\t")
    if f[0] in ("BLOCKED", "MISSING", "STUCK"):
        return None
    segs, cur = [], None
    for (t, tn, tid) in k2.parse_rust_events(f[1] if len(f) > 1 else "", p.base):
        if t == "poll":
            cur = []
            segs.append(cur)
        elif t.startswith("batch:") and cur is not None:
            cur = []
            segs.append(cur)
        elif cur is not None and (t.startswith(("cb:", "cap:", "hc:")) or t == "hd"):
            cur.append(t)
    mf = model_line.split("\t")
    if not mf[0].startswith("ok"):
        return None
    m_polls = [k2.lean_flat("x\t" + seg, p)[1] for seg in (mf[1].split(" | ") if len(mf) > 1 else [])]
    for i in range(max(len(segs), len(m_polls))):
        a = sorted(segs[i]) if i < len(segs) else []
        b = sorted(m_polls[i]) if i < len(m_polls) else []
        if a != b:
            return ("events while the gates of batches 0..%d are open: real %r, model %r (a branch must run as far as its own "
                    "gates allow, whatever its siblings are waiting for)" % (i - 1, a, b))
    return None


def nothing_fails(p):
    outs = [op.out[0] for br in p.branches for op in br["ops"]]
    if p.handler:
        outs.append(p.handler["out"][0])
        outs.append(p.handler.get("def_out", ("ok", 0))[0])
    caps = [op for br in p.branches for op in br["ops"] if op.block and op.cap_panics]
    return all(o == "ok" for o in outs) and not caps


def body(ctx, kinds=("a1t0s0", "a1t1s0", "a1t0s1", "a1t1s1"), n=None, profiles=None, **kw):
    n = (ctx.n(70, 700)) if n is None else n
    params = dict(max_depth=3, max_branches=3, fail_rate=(1, 6), handler_rate=(1, 3), block_rate=(1, 5), name_rate=(1, 4))
    params.update(kw)
    progs = [gen_async(ctx.rng, "p%d" % i, ctx.rng.pick(list(kinds)), **params) for i in range(n)]
    for prof in (profiles or []):
        for kind in kinds:
            progs.append(gen_async(ctx.rng, "p%d" % len(progs), kind, profile=prof, **params))
    # a few programs far beyond the random sizes (9-13 branches, up to 9 steps): size thresholds
    if n:
        fr = params.get("fail_rate", (1, 6))
        pb = {k: v for k, v in params.items() if k not in ("max_depth", "max_branches", "fail_rate")}
        for _ in range(ctx.n(2, 8)):
            prof = [1 + ctx.rng.below(9 if ctx.rng.chance(1, 3) else 4) for _ in range(9 + ctx.rng.below(5))]
            progs.append(gen_async(ctx.rng, "p%d" % len(progs), ctx.rng.pick(list(kinds)), profile=prof,
                                   fail_rate=(fr[0], fr[1] * 8) if fr[0] else fr, **pb))
    for i, p in enumerate(progs):
        p.base = 1000 * (i + 1)
        if i % 3 == 1 and not p.pid.endswith("_2"):
            p.pid += "_2"          # executed twice (see MAIN_ASYNC)
        if i % 4 == 3 and not hasattr(p, "forwarded"):
            p.forwarded = True     # invoked through a forwarding `macro_rules!` wrapper (k2.PRELUDE_SYNC)
    # reference: the sync counterpart's semantics on the same structure
    cases = [(p.pid, p.kind, p.macro_input(), "k2async") for p in progs]
    reals = k1.run_real(cases)
    for p, r in zip(progs, reals):
        if r.parse != "ok":
            raise RuntimeError("K2-async generator produced a program the real parser rejects: %s -> %s" % (p.macro_input(), r.parse))
    nk, diffs = k1.compare_gen(reals)
    ctx.k1_compared += nk
    if diffs:
        ctx.k1_diffs += diffs
        ctx.broken.append(("K1 generator correspondence (K2-async programs)", [d.to_json() for d in diffs[:3]]))
    lines = ["SPEC\t%s\t%s\t%s\t%s" % (p.pid, sync_kind(p.kind), r.structure, p.world()) for p, r in zip(progs, reals)]
    outs = k1.run_driver(lines)
    spec = {p.pid: (o.split("\t", 1)[1] if "\t" in o else o) for p, o in zip(progs, outs)}
    # the semantics of the model-generated async code (canonical schedule) must be that reference: `sync_refines` on concrete
    # programs, for the async kinds it covers (the non-try ones)
    # (non-try kinds: the reference is the sync counterpart's; try kinds: `specRunAT`, asked for with the async kind itself)
    cov = list(zip(progs, reals))
    runs = k1.run_driver(["RUN\t%s\t%s\t%s\t%s" % (p.pid, p.kind, r.structure, p.world()) for p, r in cov]) if cov else []
    ref_at = k1.run_driver(["SPEC\t%s\t%s\t%s\t%s" % (p.pid, p.kind, r.structure, p.world()) for p, r in cov if p.is_try()])
    ref_at = dict(zip([p.pid for p, r in cov if p.is_try()], [(o.split("\t", 1)[1] if "\t" in o else o) for o in ref_at]))
    for (p, r), o in zip(cov, runs):
        line = o.split("\t", 1)[1] if "\t" in o else o
        if line != (ref_at[p.pid] if p.is_try() else spec[p.pid]):
            ctx.broken.append(("refinement on a concrete async program (Sem(gen p) under the canonical schedule vs reference)",
                               {"program": p.invocation(), "model_code_semantics": line[:600],
                                "reference": (ref_at[p.pid] if p.is_try() else spec[p.pid])[:600]}))
            break
    ctx.out.coverage["async_model_runs_compared"] = ctx.out.coverage.get("async_model_runs_compared", 0) + len(cov)
    # the poll-level model (Async.lean / AsyncSpec.lean): its predicted events per poll under this gate schedule, for the
    # kinds that run on the deterministic executor
    det = [(p, r) for p, r in zip(progs, reals) if ((not p.is_spawn()) or p.no_runtime() or nothing_fails(p)) and not getattr(p, "yields", None)]
    det_y = [(p, r) for p, r in zip(progs, reals) if getattr(p, "yields", None)]
    apoll = k1.run_driver(["APOLL\t%s\t%s\t%s\t%s\t%s" % (p.pid, p.kind, r.structure, p.world_gated(),
                           "|".join(",".join(str(g) for g in b) for b in p.schedule) if p.schedule else "-") for p, r in det]) if det else []
    predicted = {p.pid: (o.split("\t", 1)[1] if "\t" in o else o) for (p, r), o in zip(det, apoll)}
    src = (k2.PRELUDE_SYNC + PRELUDE_ASYNC + "".join(p.rust_fn() for p in progs) +
           MAIN_ASYNC % ", ".join('("%s", %s as fn() -> String)' % (p.pid, p.pid) for p in progs))
    ok, out, log = k2.build_and_run("k2async", src, with_async=True)
    if not ok:
        ctx.broken.append(("K2-async programs do not compile against the current macros", log[-3000:]))
        pid, excerpt = k2.blame_compile_error(src, log)
        culprit = next((p for p in progs if p.pid == pid), None)
        if culprit is not None:
            ctx.out.violation({"macro": culprit.name, "macro_kind": culprit.kind, "source": culprit.macro_input(),
                               "program": "%s! { %s }" % (culprit.name, culprit.macro_input()), "compiler": excerpt,
                               "what": "a program that is well-typed under the reference semantics no longer compiles against the "
                                       "current macros (every program of this family compiles on a tree where the property holds)"},
                              found_input=True, signature=None)
        return
    got = {}
    for l in out.splitlines():
        f = l.split("\t", 1)
        if len(f) == 2:
            got[f[0]] = f[1]
    ctx.evals += len(progs)
    # programs with self-waking pending points: the model's schedule is the executor's plus "opened after the poll that met it"
    if det_y:
        apoll_y = k1.run_driver(["APOLL\t%s\t%s\t%s\t%s\t%s" % (p.pid, p.kind, r.structure, p.world_gated(),
                                 "|".join(",".join(str(g) for g in b) for b in effective_schedule(p, got.get(p.pid, "MISSING\t"))))
                                 for p, r in det_y])
        for (p, r), o in zip(det_y, apoll_y):
            predicted[p.pid] = o.split("\t", 1)[1] if "\t" in o else o
        ctx.out.coverage["programs_with_self_waking_points"] = ctx.out.coverage.get("programs_with_self_waking_points", 0) + len(det_y)
    for p in progs:
        rl = got.get(p.pid, "MISSING\t")
        problems = judge(p, rl, spec[p.pid])
        if p.pid.endswith("_2") and not problems:
            r2 = got.get(p.pid + "#2", "MISSING\t").split("\t")[0]
            r1 = rl.split("\t")[0]
            # (a second run of a program in which a chain fails may return another chain's failure: only compare when nothing fails)
            if nothing_fails(p) and r2 != r1:
                problems.append("second execution of the same call site returned %r, the first one %r" % (r2[:200], r1[:200]))
        if p.pid in predicted and p.is_spawn() and not p.no_runtime():
            d = batch_diff(p, rl, predicted[p.pid])
            ctx.out.coverage["batch_level_compared_tokio"] = ctx.out.coverage.get("batch_level_compared_tokio", 0) + 1
            if d:
                problems.append("batch-level (tokio): " + d)
        elif p.pid in predicted:
            d = poll_diff(p, rl, predicted[p.pid])
            ctx.out.coverage["poll_level_compared"] = ctx.out.coverage.get("poll_level_compared", 0) + 1
            if d and not problems:
                # the implementation satisfies the property-level oracle but not the poll-level model: the model (or the
                # assumption about join!/await it encodes) does not describe this execution
                ctx.broken.append(("poll-level model vs the real future on the deterministic executor",
                                   {"program": p.invocation(), "gate_schedule": p.schedule, "difference": d,
                                    "observed": rl[:800], "model": predicted[p.pid][:800]}))
            elif d:
                problems.append("poll-level: " + d)
        ctx.dist["k2async:" + p.name] += 1
        ctx.shapes.add(p.kind + re.sub(r"\d+", "0", p.macro_input()))
        if problems:
            ctx.out.violation({"macro": p.name, "macro_kind": p.kind, "source": p.macro_input(),
                               "program": p.invocation(), "gate_schedule": p.schedule,
                               "observed": rl[:1500], "reference_semantics_sync_counterpart": spec[p.pid][:800], "problems": problems},
                              found_input=True, signature=None)
    ctx.out.coverage["samples"].append({"program": "%s! { %s }" % (progs[0].name, progs[0].macro_input()),
                                        "schedule": progs[0].schedule, "observed": got.get(progs[0].pid, "")[:300]})
    ctx.out.coverage["traces_validated_against_impl"] = ctx.out.coverage.get("traces_validated_against_impl", 0) + len(progs)


def body_panics(ctx, kinds=("a1t0s0", "a1t1s0", "a1t0s1", "a1t1s1"), n=None):
    """C18 for the async variants: exactly one user callback panics (no failing branch, so nothing can win a race against
    it): the macro's future must panic when driven - it may not complete normally, hang, or be left pending forever."""
    n = (ctx.n(24, 240)) if n is None else n
    rng = ctx.rng
    progs = []
    for i in range(n):
        kind = kinds[i % len(kinds)]
        p = gen_async(rng, "x%d" % i, kind, max_depth=3, max_branches=3, fail_rate=(0, 1), handler_rate=(1, 3), block_rate=(0, 1),
                      name_rate=(1, 4), panic_rate=(0, 1))
        p.base = 1000 * (i + 1)
        sites = [op for br in p.branches for op in br["ops"] if op.cb and op.mode in ("init", "map", "andThen", "then", "orElse", "mapErr")]
        # or_else / map_err callbacks never run when nothing fails: pick among the ones that do run
        sites = [op for op in sites if op.mode not in ("orElse", "mapErr")]
        victim = rng.pick(sites)
        victim.out = ("panic", victim.cb)
        p.victim = victim.cb
        progs.append(p)
    cases = [(p.pid, p.kind, p.macro_input(), "k2async-panic") for p in progs]
    reals = k1.run_real(cases)
    nk, diffs = k1.compare_gen(reals)
    ctx.k1_compared += nk
    if diffs:
        ctx.k1_diffs += diffs
        ctx.broken.append(("K1 generator correspondence (K2-async panic programs)", [d.to_json() for d in diffs[:3]]))
    src = (k2.PRELUDE_SYNC + PRELUDE_ASYNC + "".join(p.rust_fn() for p in progs) +
           MAIN_ASYNC % ", ".join('("%s", %s as fn() -> String)' % (p.pid, p.pid) for p in progs))
    ok, out, log = k2.build_and_run("k2asyncpanic", src, with_async=True)
    if not ok:
        ctx.broken.append(("K2-async panic programs do not compile against the current macros", log[-3000:]))
        return
    got = dict(l.split("\t", 1) for l in out.splitlines() if "\t" in l)
    ctx.evals += len(progs)
    for p in progs:
        rl = got.get(p.pid, "MISSING\t")
        res = rl.split("\t")[0]
        ctx.dist["k2async-panic:" + p.name] += 1
        okp = res.startswith("panic") and (p.is_spawn() or ("user%d" % (p.victim + p.base)) in res or "user" in res)
        if not okp:
            ctx.out.violation({"macro": p.name, "macro_kind": p.kind, "source": p.macro_input(),
                               "program": p.invocation(), "gate_schedule": p.schedule,
                               "panicking_callback": p.victim, "observed": rl[:1200],
                               "what": "a user callback panicked but the macro's future did not panic when driven "
                                       "(completed, hung, or stayed pending)"}, found_input=True, signature=None)
    ctx.out.coverage["traces_validated_against_impl"] = ctx.out.coverage.get("traces_validated_against_impl", 0) + len(progs)
