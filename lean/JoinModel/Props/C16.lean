/-
  C16 — options: custom joiner, lazy branches, transpose switch, crate path.
  Statements about the structured code `genStep` / `genLink` / `genFinal` produce, for every context
  (∀ programs, kinds, option values).  "Options are accepted in any order and subset, each at most once" is a
  property of the parser: the last section states it about the parser model (`options_any_order_subset`,
  `options_order_irrelevant`, `option_twice_rejected`); K1 / K1-parse enumerate every subset, permutation and duplicate
  position against the real parser (Props/C15, tools/props.py).
-/
import JoinModel.Lemmas.CtxFacts
import JoinModel.Lemmas.OptionParse
import JoinModel.Print
import JoinModel.Lemmas.JoinerCount
namespace JoinModel.Props.C16
open JoinModel

/-- how the step's operands are joined -/
theorem joiner_once_per_step (c : Ctx) (k : Nat) (s : StepCode) (h : genStep c k = .ok s) :
    s.form =
      (if c.activeCount k > 1 then
        match c.joiner with
        | some j => JoinForm.call j
        | none =>
          if c.kind.isAsync then
            JoinForm.futJoin ((c.fcp.getD []) ++ [pj ':', pu ':', id' (if c.kind.isTry then "try_join" else "join"), pu '!'])
              c.kind.isTry
          else JoinForm.tuple
       else if c.kind.isAsync then JoinForm.awaitCat else JoinForm.tuple) := by
  unfold genStep at h
  split at h
  · cases h
  · cases h
    by_cases hm : c.activeCount k > 1
    · simp only [hm, decide_true, if_true]
      cases c.joiner with
      | some j => rfl
      | none => by_cases ha : c.kind.isAsync <;> simp [ha]
    · simp only [hm, decide_false, Bool.false_eq_true, if_false]

/-- The custom joiner is applied exactly once per step with more than one active branch — `joiner(e₁, …, eₙ)`, the
    operands being the chains of exactly the active branches in branch order — and not at all in a step with a
    single active branch. -/
theorem custom_joiner_applied (c : Ctx) (k : Nat) (s : StepCode) (j : Toks) (h : genStep c k = .ok s)
    (hj : c.joiner = some j) :
    (c.activeCount k > 1 → s.form = .call j) ∧ (¬ c.activeCount k > 1 → s.form ≠ .call j ∨ c.kind.isAsync = false) := by
  have := joiner_once_per_step c k s h
  constructor
  · intro hm; rw [this]; simp [hm, hj]
  · intro hm
    by_cases ha : c.kind.isAsync = true
    · left; rw [this]; simp [hm, ha]
    · right; simpa using ha

/-- the joiner application prints as `joiner ( e₁ , … , eₙ )`, once -/
theorem joiner_printed_once (s : StepCode) (j : Toks) (h : s.form = .call j) :
    ∃ pre post, printStep s = pre ++ j ++ [paren (commaSep (s.elems.map printElem))] ++ post := by
  refine ⟨(s.tbs.flatMap fun (b, arg) => [kw "let", (Var.j b).tok, pu '=', Var.tb.tok, paren [usizeLit arg], pu ';'])
      ++ s.defs.flatMap printCapDef ++ [kw "let", (Var.sr s.k).tok, pu '='],
    [pu ';'] ++ (match s.spawnJoin with
      | none => []
      | some ps =>
        [kw "let", (Var.sr s.k).tok, pu '=',
          paren (commaSep (ps.map fun p => projToks s.k p ++ call0 "join" ++ call0 "unwrap")), pu ';']), ?_⟩
  simp only [printStep, h, List.append_assoc]
  cases s.spawnJoin <;> rfl

/-- the operands are the active branches' chains in branch order, each handed over as `move || chain` exactly when
    `lazy_branches` is on (default: thread-spawning macros only) and more than one branch is active -/
theorem lazy_closures {c : Ctx} {names : List (Option String)} (ok : CtxOK c names) (σ : World) (parent : Option String)
    (k : Nat) (s : StepCode) (h : genStep c k = .ok s) :
    s.elems.map (fun e => (e.b, e.lazy)) = (c.activeIdx k).map fun b => (b, c.multi k && c.lazy) := by
  obtain ⟨_, _, he, _⟩ := genStep_shape ok σ parent k s h
  have := congrArg (List.map fun (t : Nat × Bool × ElemWrap × Var × List Member) => (t.1, t.2.1)) he
  simpa [Elem.sem, List.map_map, Function.comp_def] using this

theorem lazy_prints_move_closure (e : Elem) (h : e.lazy = true) (hw : e.wrap = .plain) :
    printElem e = [kw "move", pj '|', pu '|'] ++ e.chain := by
  simp [printElem, h, hw]

/-- defaults: lazy for the thread-spawning macros only, transposition for the sync try macros only -/
theorem option_defaults (p : Input) (kind : Kind) (c : Ctx) (h : mkCtx p kind = .ok c) :
    c.lazy = p.lazy.getD (kind.isSpawn && !kind.isAsync) ∧ c.transpose = p.transpose.getD (kind.isTry && !kind.isAsync) ∧
    c.joiner = p.joiner ∧ (kind.isAsync = true → c.fcp = some (p.fcp.getD defaultFcp)) := by
  unfold mkCtx at h
  split at h
  · cases h
  · split at h
    · cases h
    · split at h
      · cases h
      · split at h
        · cases h
        · cases h
          refine ⟨rfl, rfl, rfl, ?_⟩
          intro ha
          cases p.fcp <;> simp [ha]

/-- `transpose_results(false)`: in try macros every step but the last scrutinises the joiner's output with
    `match … { Ok(x) => …, Err(err) => Err(err) }` and continues with the payload; with transposition the success
    check over the active branches is used instead. -/
theorem transpose_false_steps (c : Ctx) (k : Nat) (htry : c.kind.isTry = true) :
    (c.transpose = false → ∃ rw, genLink c k = .matchOk rw (c.activePats k)) ∧
    (c.transpose = true → genLink c k = .failCheck (c.activePats k) (c.activeVars k) (c.failArms k)) := by
  constructor
  · intro h; simp [genLink, htry, h]
  · intro h; simp [genLink, htry, h]

theorem transpose_false_final (c : Ctx) (k : Nat) (htry : c.kind.isTry = true) (h : c.transpose = false) :
    (∃ ps vs, genFinal c k = .matchOkTuple ps vs) ∨ (∃ ps rs vs, genFinal c k = .matchOkTranspose ps rs vs) ∨
      genFinal c k = .matchOkSingle := by
  simp only [genFinal, h, htry, Bool.false_and, Bool.false_eq_true, if_false, if_true]
  by_cases hn : c.n > 1
  · simp only [hn, if_true]
    by_cases he : (c.inactiveVars k).isEmpty
    · left; simp [he]
    · right; left; simp [he]
  · right; right; simp [hn]

/-- the `Future<Output = T>` path under the configured futures crate -/
def futureOf (fcp : Toks) : Toks :=
  fcp ++ pathSep ++ [kw "future"] ++ pathSep ++ [kw "Future", pu '<', kw "Output", pu '=', kw "T", pu '>']

/-- `futures_crate_path(p)`: every futures item of the async frame comes from `p` — the `use` line, the joiner
    macros (`joiner_once_per_step`) and both `Future` bounds of the `__spawn_tokio` helper print the same path. -/
theorem fcp_everywhere (fcp : Toks) :
    useFutures fcp = [kw "use"] ++ fcp ++ pathSep ++
      [brace [kw "FutureExt", pu ',', kw "TryFutureExt", pu ',', kw "StreamExt", pu ',', kw "TryStreamExt"], pu ';'] ∧
    fnSpawnTokio fcp =
      [kw "fn", Var.spawnTokio.tok, pu '<', kw "T", pu ',', kw "F", pu '>', paren [kw "__future", pu ':', kw "F"],
        pj '-', pu '>', kw "impl"] ++ futureOf fcp ++ [kw "where", kw "F", pu ':'] ++ futureOf fcp ++
      [pu '+', kw "Send", pu '+', pj '\'', kw "static"] ++ [pu ',', kw "T", pu ':', kw "Send"] ++
      [pu '+', pj '\'', kw "static", pu ','] ++
      [brace (pathSep ++ [kw "tokio"] ++ pathSep ++ [kw "spawn", paren [kw "__future"], pu '.', kw "map",
        paren [pu '|', Var.v.tok, pu '|', Var.v.tok, pu '.', kw "unwrap_or_else",
          paren [pu '|', kw "err", pu '|', kw "panic", pu '!',
            paren [.lit "\"tokio JoinHandle failed: {:#?}\"", pu ',', kw "err"]]]])] := by
  constructor
  · simp [useFutures, List.append_assoc]
  · simp [fnSpawnTokio, futureOf, List.append_assoc]

/-! ### The option parser: any order, any subset, each at most once

  `Lemmas/OptionParse.lean` shows that the option loop of `JoinInputDefault::parse` — rounds in which the four keywords
  are tried in a fixed order — does the same as reading the written options one after the other.  `its` are the written
  options `keyword(content)`, `rest` is what follows them (it does not start with an option keyword). -/

/-- **Any order and any subset**: options with pairwise different keywords whose arguments parse (a path, a boolean
    literal) are all accepted, whatever their order and number; each sets its own field, the rest of the input is
    left for the branches. -/
theorem options_any_order_subset (o : Oracle) (its : List OptItem) (rest : Toks) (hok : ∀ it ∈ its, ItemOK o it)
    (hnd : (its.map (·.kw)).Nodup) (hrest : optionKw rest = none) :
    parseOptions o ((renderOpts its ++ rest).length + 1) ((renderOpts its ++ rest).length + 1) (renderOpts its ++ rest) {} =
      .ok (its.foldl (applyItem o) {}, rest) := by
  have hl : its.length < (renderOpts its ++ rest).length + 1 := by
    simp only [List.length_append, renderOpts_length]; omega
  rw [parseOptions_seq o rest hrest _ _ its {} hok hl hl,
    seqSpec_ok o its {} hok hnd (fun it _ => by
      rcases mem_optionOrder _ (hok it ‹_›).1 with h | h | h | h <;> simp [isSet, h])]

theorem applyItem_comm (o : Oracle) (opts : Opts) (a b : OptItem) (ha : ItemOK o a) (hb : ItemOK o b) (hne : a.kw ≠ b.kw) :
    applyItem o (applyItem o opts a) b = applyItem o (applyItem o opts b) a := by
  rcases mem_optionOrder _ ha.1 with h | h | h | h <;> rcases mem_optionOrder _ hb.1 with h' | h' | h' | h'
  all_goals first
    | exact absurd (h.trans h'.symm) hne
    | (simp only [applyItem, h, h']
       cases o.pathPrefix a.content <;> cases o.pathPrefix b.content <;> cases o.litBool a.content <;>
         cases o.litBool b.content <;> simp [Bool.or_assoc, Bool.or_comm, Bool.or_left_comm])

/-- **The order does not matter**: two orders of the same options give the same record. -/
theorem options_order_irrelevant (o : Oracle) (its₁ its₂ : List OptItem) (hp : its₁.Perm its₂) :
    (∀ it ∈ its₁, ItemOK o it) → (its₁.map (·.kw)).Nodup → ∀ opts : Opts,
    its₁.foldl (applyItem o) opts = its₂.foldl (applyItem o) opts := by
  induction hp with
  | nil => intro _ _ _; rfl
  | cons x _ ih =>
    intro hok hnd opts
    simp only [List.map_cons, List.nodup_cons] at hnd
    simp only [List.foldl_cons]
    exact ih (fun y hy => hok y (List.mem_cons_of_mem _ hy)) hnd.2 _
  | swap x y l =>
    intro hok hnd opts
    simp only [List.map_cons, List.nodup_cons, List.mem_cons, not_or] at hnd
    simp only [List.foldl_cons]
    rw [applyItem_comm o opts y x (hok y List.mem_cons_self) (hok x (List.mem_cons_of_mem _ List.mem_cons_self)) hnd.1.1]
  | trans h12 _ ih1 ih2 =>
    intro hok hnd opts
    rw [ih1 hok hnd opts]
    exact ih2 (fun y hy => hok y (h12.mem_iff.mpr hy)) ((h12.map _).nodup_iff.mp hnd) opts

/-- **Each at most once**: a keyword written a second time — anywhere after its first occurrence, whatever stands in
    between and behind — is rejected with the "specified twice" error for that keyword. -/
theorem option_twice_rejected (o : Oracle) (pre : List OptItem) (b : OptItem) (post : List OptItem) (rest : Toks)
    (hok : ∀ it ∈ pre ++ b :: post, ItemOK o it) (hnd : (pre.map (·.kw)).Nodup) (hdup : b.kw ∈ pre.map (·.kw))
    (hrest : optionKw rest = none) :
    parseOptions o ((renderOpts (pre ++ b :: post) ++ rest).length + 1) ((renderOpts (pre ++ b :: post) ++ rest).length + 1)
        (renderOpts (pre ++ b :: post) ++ rest) {} = .error (.optionTwice (shortName b.kw)) := by
  have hl : (pre ++ b :: post).length < (renderOpts (pre ++ b :: post) ++ rest).length + 1 := by
    simp only [List.length_append, renderOpts_length]; omega
  have hpre : ∀ it ∈ pre, ItemOK o it := fun it h => hok it (List.mem_append_left _ h)
  rw [parseOptions_seq o rest hrest _ _ _ {} hok hl hl,
    seqSpec_twice o pre b post {} hpre (hok b (by simp)).1 hnd (fun it h => by
      rcases mem_optionOrder _ (hpre it h).1 with h | h | h | h <;> simp [isSet, h]) (Or.inr hdup)]

/-- non-vacuity: two options in the "wrong" order are accepted and set their fields; the same keyword twice is rejected -/
example :
    let o : Oracle := { validExpr := fun _ => false, validType := fun _ => false, isBlock := fun _ => false,
                        letSplit := fun _ => .notLet, reprintExpr := id, reprintType := id, exprPrefix := fun _ => none,
                        pathPrefix := fun ts => some ts.length, litBool := fun ts => if ts == [.ident "true"] then some true else none }
    let lazy : Toks := [.ident "lazy_branches", .group .paren [.ident "true"]]
    let joiner : Toks := [.ident "custom_joiner", .group .paren [.ident "j"]]
    ((parseOptions o 9 9 (lazy ++ joiner ++ [.ident "a"]) {}).toOption.map
        (fun r => (r.1.lazy, r.1.joiner, r.2))) = some (some true, some [.ident "j"], [.ident "a"]) ∧
    (parseOptions o 9 9 (lazy ++ joiner ++ lazy ++ [.ident "a"]) {}).toOption.isSome = false := by
  intro o lazy joiner
  exact ⟨rfl, rfl⟩

/-! ### the joiner in the emitted token stream -/

/-- **`custom_joiner(j)` is written into the expansion once per step that has more than one active branch, and nowhere
    else** — whatever the other options (a configured futures path does not displace it), the macro kind, the number of
    branches and steps: for an identifier `s` that the caller wrote only inside `j` (not in the operands, the handler, the
    `let` patterns or the futures path), the occurrences of `s` in the whole printed expansion are
    Σ over the steps k = 0 … max−1 of (occurrences of `s` in `j` if step k has more than one active branch, else 0). -/
theorem custom_joiner_once_per_joined_step (s : String) (hm : PMarker s) (p : Input) (kind : Kind) (code : Code) (c : Ctx)
    (j : Toks) (hc : mkCtx p kind = .ok c) (h : gen p kind = .ok code) (hinit : InitialOnlyFirst p) (hj : p.joiner = some j)
    (hpats : ∀ b ∈ p.branches, ∀ pt, b.pat = some pt → pt.ident ≠ s ∧ cntToks s pt.toks = 0)
    (hfcp : cntToks s (p.fcp.getD []) = 0) (hfut : "futures" ≠ s) (hops : cntProgram s p = 0)
    (hhd : cntToks s ((p.handler.map (·.2)).getD []) = 0) :
    cntToks s (printCode code) = sumR (fun i => if c.activeCount i > 1 then cntToks s j else 0) 0 c.maxSteps :=
  joiner_count hm p kind code c j hc h hinit hj hpats hfcp hfut hops hhd

/-- Non-vacuity: depths (2, 2, 1) under `join_async!` with `futures_crate_path(my::fut) custom_joiner(my_join)`: both steps
    have more than one active branch, and `my_join` occurs twice in the expansion; with depths (1, 2) once. -/
example :
    let ini : Member := ⟨.initial, false, .none, [⟨.expr, [.ident "a"]⟩]⟩
    let stp : Member := ⟨.map, true, .none, [⟨.expr, [.ident "f"]⟩]⟩
    let opts (bs : List Branch) : Input :=
      { fcp := some [.ident "my", pj ':', pu ':', .ident "fut"], joiner := some [.ident "my_join"], branches := bs }
    (match gen (opts [⟨none, [ini, stp]⟩, ⟨none, [ini, stp]⟩, ⟨none, [ini]⟩]) ⟨true, false, false⟩ with
      | .ok code => cntToks "my_join" (printCode code) | .error _ => 0) = 2 ∧
    (match gen (opts [⟨none, [ini]⟩, ⟨none, [ini, stp]⟩]) ⟨true, false, false⟩ with
      | .ok code => cntToks "my_join" (printCode code) | .error _ => 0) = 1 := by
  decide +kernel

end JoinModel.Props.C16
