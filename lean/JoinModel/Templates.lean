/-
  Fixed helper items of the expansion (join_output.rs `to_tokens`), as token terms.
  Hand-written part of the model (produced once from a real expansion, then kept under review);
  every K1 comparison re-validates them against the current /repo output.
  The names `__inspect`, `__h`, `__v`, `__tb`, `__spawn_tokio` are those of the generated name table.
-/
import JoinModel.Names
namespace JoinModel.Templates
open JoinModel

/-- `fn __inspect<I>(__h: impl Fn(&I) -> (), __v: I) -> I { __h(&__v); __v }` -/
def fnInspect : Toks := [(.ident "fn"), Var.inspect.tok, (.punct '<' false), (.ident "I"), (.punct '>' false), (.group .paren [Var.h.tok, (.punct ':' false), (.ident "impl"), (.ident "Fn"), (.group .paren [(.punct '&' false), (.ident "I")]), (.punct '-' true), (.punct '>' false), (.group .paren []), (.punct ',' false), Var.v.tok, (.punct ':' false), (.ident "I")]), (.punct '-' true), (.punct '>' false), (.ident "I"), (.group .brace [Var.h.tok, (.group .paren [(.punct '&' false), Var.v.tok]), (.punct ';' false), Var.v.tok])]

/-- `fn __tb(branch_index: usize) -> ::std::thread::Builder { … }` -/
def fnTb : Toks := [(.ident "fn"), Var.tb.tok, (.group .paren [(.ident "branch_index"), (.punct ':' false), (.ident "usize")]), (.punct '-' true), (.punct '>' false), (.punct ':' true), (.punct ':' false), (.ident "std"), (.punct ':' true), (.punct ':' false), (.ident "thread"), (.punct ':' true), (.punct ':' false), (.ident "Builder"), (.group .brace [(.ident "let"), (.ident "thread_name"), (.punct '=' false), (.ident "format"), (.punct '!' false), (.group .paren [(.lit "\"join_{}\""), (.punct ',' false), (.ident "branch_index")]), (.punct ';' false), (.punct ':' true), (.punct ':' false), (.ident "std"), (.punct ':' true), (.punct ':' false), (.ident "thread"), (.punct ':' true), (.punct ':' false), (.ident "Builder"), (.punct ':' true), (.punct ':' false), (.ident "new"), (.group .paren []), (.punct '.' false), (.ident "name"), (.group .paren [(.punct ':' true), (.punct ':' false), (.ident "std"), (.punct ':' true), (.punct ':' false), (.ident "thread"), (.punct ':' true), (.punct ':' false), (.ident "current"), (.group .paren []), (.punct '.' false), (.ident "name"), (.group .paren []), (.punct '.' false), (.ident "map"), (.group .paren [(.punct '|' false), (.ident "current_thread_name"), (.punct '|' false), (.ident "format"), (.punct '!' false), (.group .paren [(.lit "\"{current_thread_name}_{new_thread_name}\""), (.punct ',' false), (.ident "current_thread_name"), (.punct '=' false), (.ident "current_thread_name"), (.punct ',' false), (.ident "new_thread_name"), (.punct '=' false), (.ident "thread_name")])]), (.punct '.' false), (.ident "unwrap_or"), (.group .paren [(.ident "thread_name")])])])]

end JoinModel.Templates
