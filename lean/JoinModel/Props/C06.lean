/-
  C06 — try macros: a failed step aborts everything after it.
  Reference loop + bridge (`generated_eq_reference`).  Every event carries its step (`MEv.step`): block
  captures, chain starts/ends, callbacks inside chains, forks/joins of branch threads.
-/
import JoinModel.Props.Common
import JoinModel.AsyncTry
import JoinModel.AsyncSpec
import JoinModel.Lemmas.SpecFacts
import JoinModel.Concrete
namespace JoinModel.Props.C06
open JoinModel JoinModel.Props

/-- When the loop of a try macro ends in failure there is a failing step `j` such that nothing that belongs
    to a later step appears in the trace — no capture, chain, callback, fork — and every branch active in
    step `j` ran its chain of that step to the end. -/
theorem no_later_step_after_failure (σ : World) (parent : Option String) (p : Input) (kind : Kind)
    (htry : kind.isTry = true) (v : Value) (h : (loopOf σ parent p kind).res = .ok (.failed v)) :
    ∃ b j, (b, j, v) ∈ chainEnds (loopOf σ parent p kind).trace ∧
      (∀ e ∈ (loopOf σ parent p kind).trace, ∀ s, e.step = some s → s ≤ j) ∧
      (∀ b' ∈ (cfgFor σ parent p kind).active j, ∃ v', (b', j, v') ∈ chainEnds (loopOf σ parent p kind).trace) := by
  have := specLoop_try (cfgFor σ parent p kind) htry _ 0 _ (by simp [SpecCfg.n]) (allSucc_init _) (.failed v) h
  obtain ⟨_, b, j, _, h3, _, h5, h6⟩ := this
  exact ⟨b, j, h3, h5, h6⟩

/-- A `map` / `and_then` handler is not called after a failure: the failing value is the macro's value and no
    event is added. -/
theorem handler_not_called_on_failure (sc : SpecCfg) (h : Option HKind) (v : Value) :
    specHandle sc h (.failed v) = M.ret v := by
  cases h with
  | none => rfl
  | some k => cases k <;> rfl

/-- The whole run of a failing try macro with a handler: the trace is "handler definition, then the loop";
    in particular it contains no `handlerCall` event. -/
theorem failing_run_trace (σ : World) (parent : Option String) (p : Input) (kind : Kind) (v : Value)
    (hd : σ.handlerDef = .ok ()) (h : (loopOf σ parent p kind).res = .ok (.failed v)) :
    (specRun σ parent p kind).res = .ok v ∧
    (specRun σ parent p kind).trace = (handlerDefOf σ p).trace ++ (loopOf σ parent p kind).trace := by
  rw [specRun_eq]
  have hdr : (handlerDefOf σ p).res = .ok () := by
    unfold handlerDefOf
    cases p.handler <;> simp [M.ret, M.tell, M.andThen, M.lift, hd, UR.toRes]
  obtain ⟨t1, r1⟩ := M.andThen_trace_ok (f := fun _ => (loopOf σ parent p kind).andThen fun f =>
    specHandle (cfgFor σ parent p kind) (p.handler.map Prod.fst) f) hdr
  obtain ⟨t2, r2⟩ := M.andThen_trace_ok (f := fun f =>
    specHandle (cfgFor σ parent p kind) (p.handler.map Prod.fst) f) h
  rw [t1, r1, t2, r2, handler_not_called_on_failure]
  simp [M.ret]

/-! ### the async try macros (canonical schedule) -/

/-- the step loop of an async try invocation -/
def loopOfAT (σ : World) (parent : Option String) (p : Input) (kind : Kind) : M Fin :=
  specLoopAT (cfgFor σ parent p kind) ((cfgFor σ parent p kind).maxDepth - 1) 0
    (List.replicate (cfgFor σ parent p kind).n none)

/-- `try_join_async!` & co.: the generated code is the async-try reference (events and result) -/
theorem async_try_generated (σ : World) (parent : Option String) (p : Input) (kind : Kind) (code : Code)
    (hs : SupportedAT p kind) (hgen : gen p kind = .ok code) :
    evalCode σ parent code = specRunAT σ parent p kind := async_try_refines σ parent p kind code hs hgen

/-- **From the tokens to the aborted run** (sequential and thread-spawning try macros): whatever the parser accepts (any behaviour
    of syn), if the step loop of the parsed program fails with `v`, the code expanded from it returns exactly `v` and its events are
    the handler definition followed by the loop's events — which contain nothing of a step after the failing one
    (`no_later_step_after_failure`) and no handler call. -/
theorem accepted_failing_run (o : Oracle) (toks : Toks) (σ : World) (parent : Option String) (p : Input) (kind : Kind)
    (code : Code) (hparse : parseMacroInput o toks = .ok p) (hd : PlainInvocation p kind) (hgen : gen p kind = .ok code)
    (v : Value) (hdef : σ.handlerDef = .ok ()) (h : (loopOf σ parent p kind).res = .ok (.failed v)) :
    (evalCode σ parent code).res = .ok v ∧
    (evalCode σ parent code).trace = (handlerDefOf σ p).trace ++ (loopOf σ parent p kind).trace := by
  rw [accepted_eq_reference o toks σ parent p kind code hparse hd hgen]
  exact failing_run_trace σ parent p kind v hdef h

/-- …and from the tokens the caller wrote: whatever the parser accepts (any behaviour of syn) under an async try macro
    with default options expands to code that is the async-try reference loop of what was parsed. -/
theorem accepted_async_try (o : Oracle) (toks : Toks) (σ : World) (parent : Option String) (p : Input) (kind : Kind)
    (code : Code) (hparse : parseMacroInput o toks = .ok p) (hj : p.joiner = none) (hl : p.lazy = none)
    (hnames : (p.branches.filterMap fun b => b.pat.map (·.ident)).Nodup) (ha : kind.isAsync = true)
    (ht : kind.isTry = true) (htr : p.transpose ≠ some true) (hgen : gen p kind = .ok code) :
    evalCode σ parent code = specRunAT σ parent p kind :=
  async_try_refines σ parent p kind code
    { noJoiner := hj, noLazy := hl, namesNodup := hnames, firstInitial := parse_first_initial o toks p hparse,
      isAsync := ha, isTry := ht, transposeDefault := htr } hgen

/-- **C05/C06 for the async try macros**: when the loop fails with `v`, `v` is not a success, it is — unchanged — what a
    chain returned, and the end of that chain is the *last* event of the loop: nothing of a later step is evaluated and
    no chain behind it in its own step runs (`try_join!` returns at once); by `handler_not_called_on_failure` no handler
    is called either. -/
theorem async_try_stops_at_failure (σ : World) (parent : Option String) (p : Input) (kind : Kind) (v : Value)
    (h : (loopOfAT σ parent p kind).res = .ok (.failed v)) :
    v.isSucc = false ∧ ∃ pre b j, (loopOfAT σ parent p kind).trace = pre ++ [.ev (.chainEnd b j v)] := by
  obtain ⟨h1, pre, b, j, h2, _⟩ := specLoopAT_failed _ _ _ _ v h
  exact ⟨h1, pre, b, j, h2⟩

/-- on success the loop returns one payload per branch -/
theorem async_try_success_arity (σ : World) (parent : Option String) (p : Input) (kind : Kind) (code : Code)
    (hs : SupportedAT p kind) (ps : List Value) (h : (loopOfAT σ parent p kind).res = .ok (.vals ps)) :
    ps.length = p.branches.length := by
  have hact : ∀ k, ((cfgFor σ parent p kind).active k).Nodup ∧
      ∀ b ∈ (cfgFor σ parent p kind).active k, b < (cfgFor σ parent p kind).n := by
    intro k
    refine ⟨List.Nodup.sublist List.filter_sublist List.nodup_range, fun b hb => ?_⟩
    exact List.mem_range.mp (List.mem_filter.mp hb).1
  have := specLoopAT_post (cfgFor σ parent p kind) hs.isTry _ _ _ (.vals ps) (allSucc_init' _) hact (by simp) h
  simpa [cfgFor, SpecCfg.n] using this

/-! ### the async try macros under every schedule

  `planLoop` (AsyncSpec.lean) is the `async move` block as a poll-level plan; `kont`/`sm` is whatever follows the step
  loop (`planRun` puts the handler there).  The statement holds from any step `k` and any state `vals` the run may have
  reached, for every schedule `gs` of gate openings. -/

/-- **A failed step aborts everything after it — async, every schedule.**  If, in step `k`, the block captures
    succeed and some active chain ends with a stopping output (a failure in a try macro, a panic in any async macro),
    then whatever gates are open at whatever polls: every event the future emits from here on belongs to step `k` (no
    capture, chain or callback of a later step, no handler call), and the future is either still in step `k` or finished
    with the stop result of one of step `k`'s stopping chains — the failure returned unchanged, or the panic. -/
theorem failed_step_aborts_every_schedule (c : SpecCfg) (pend : Pend) (rem k : Nat) (vals : List (Option Value))
    (capss : List (List Value))
    (hc : (specCapsAll c k (visibleSpec c.names vals) (c.active k)).res = .ok capss)
    (bc : Nat × List Value) (hbc : bc ∈ (c.active k).zip capss)
    (hstop : stopOf c (taskOf c pend k vals (visibleSpec c.names vals) bc).out = true)
    {ρ' : Type} (kont : Res Fin → List MEv × Plan MEv (UR Value) ρ') (sm : Res Fin → ρ') (gs : List Gates) :
    (∀ e ∈ (((planLoop c pend rem k vals).2.bind kont sm).2.run gs).1, e.step = some k) ∧
    ((((planLoop c pend rem k vals).2.bind kont sm).2.run gs).2.isDone = false ∨
     ∃ o, (((planLoop c pend rem k vals).2.bind kont sm).2.run gs).2 = .done (sm (onStopOf o)) ∧ stopOf c o = true ∧
       o ∈ ((c.active k).zip capss).map (fun bc => (taskOf c pend k vals (visibleSpec c.names vals) bc).out)) := by
  -- the plan at step `k` is a step over the chains of the active branches
  have hform : ∃ pre next, ((planLoop c pend rem k vals).2.bind kont sm).2 =
      .step (stopOf c) (fun a => sm (onStopOf a))
        (((c.active k).zip capss).map (taskOf c pend k vals (visibleSpec c.names vals))) pre next := by
    cases rem with
    | zero => unfold planLoop; simp only [hc, Plan.bind]; exact ⟨_, _, rfl⟩
    | succ rem => unfold planLoop; simp only [hc, Plan.bind]; exact ⟨_, _, rfl⟩
  obtain ⟨pre, next, hf⟩ := hform
  rw [hf]
  obtain ⟨h1, h2⟩ := Plan.run_stopper (fun e : MEv => e.step = some k) (stopOf c) (fun a => sm (onStopOf a)) pre next
    ((((c.active k).zip capss).map (taskOf c pend k vals (visibleSpec c.names vals))).map (·.out))
    ⟨_, List.mem_map_of_mem (List.mem_map_of_mem hbc), hstop⟩ gs _ rfl
    (by
      intro t ht
      obtain ⟨bc', _, rfl⟩ := List.mem_map.mp ht
      exact taskOf_step c pend k vals _ bc')
  refine ⟨h1, ?_⟩
  rcases h2 with ⟨ts', h2⟩ | ⟨a, h2, h3, h4⟩
  · left; rw [h2]; rfl
  · right
    refine ⟨a, h2, h3, ?_⟩
    simpa [List.map_map] using h4

/-- … and once the future is polled with every gate open it *is* finished: with the failure of one of step `k`'s failing
    chains, returned unchanged (`onStopOf`), or with the panic of one of them — under every schedule before that. -/
theorem failed_step_result_every_schedule (c : SpecCfg) (pend : Pend) (rem k : Nat) (vals : List (Option Value))
    (capss : List (List Value))
    (hc : (specCapsAll c k (visibleSpec c.names vals) (c.active k)).res = .ok capss)
    (bc : Nat × List Value) (hbc : bc ∈ (c.active k).zip capss)
    (hstop : stopOf c (taskOf c pend k vals (visibleSpec c.names vals) bc).out = true)
    {ρ' : Type} (kont : Res Fin → List MEv × Plan MEv (UR Value) ρ') (sm : Res Fin → ρ') (gs : List Gates) :
    ∃ o, (((planLoop c pend rem k vals).2.bind kont sm).2.run (gs ++ [allOpen])).2 = .done (sm (onStopOf o)) ∧
      stopOf c o = true ∧
      o ∈ ((c.active k).zip capss).map (fun bc => (taskOf c pend k vals (visibleSpec c.names vals) bc).out) := by
  obtain ⟨_, h⟩ := failed_step_aborts_every_schedule c pend rem k vals capss hc bc hbc hstop kont sm (gs ++ [allOpen])
  rcases h with h | h
  · rw [Plan.run_allOpen_done] at h; cases h
  · exact h

/-- the hypotheses are satisfiable: `try_join_async! { a, b ~=> f }` in a world where the first branch's initial
    expression fails — in step 0 the captures succeed and chain (0, 0) has a stopping output -/
example :
    let d : WorldDesc := { chains := [((0, 0), [⟨.init, 1, .fail 7, 0⟩]), ((1, 0), [⟨.init, 2, .ok 1, 0⟩])] }
    let ini : Member := ⟨.initial, false, .none, [⟨.expr, []⟩]⟩
    let c : SpecCfg := ⟨mkWorld d, ⟨true, true, false⟩, [none, none], none,
      [[[ini]], [[ini], [⟨.andThen, true, .none, [⟨.expr, []⟩]⟩]]]⟩
    (specCapsAll c 0 (visibleSpec c.names [none, none]) (c.active 0)).res = .ok [[], []] ∧
    ((0, []) : Nat × List Value) ∈ (c.active 0).zip [[], []] ∧
    stopOf c (taskOf c (fun _ _ _ _ _ => []) 0 [none, none] (visibleSpec c.names [none, none]) (0, [])).out = true := by
  intro d ini c
  refine ⟨rfl, ?_, rfl⟩
  decide

end JoinModel.Props.C06
