/-
  Block captures: `evalDefs` over the definitions of a step (Sem) against `specCapsAll` (Spec), and the
  lookups of the captured values by the chains.
-/
import JoinModel.Spec
import JoinModel.Lemmas.GenFacts
namespace JoinModel

theorem M.andThen_congr {α β} (m : M α) (f g : α → M β) (h : ∀ a, m.res = .ok a → f a = g a) :
    m.andThen f = m.andThen g := by
  cases m with
  | mk t r =>
    cases r with
    | ok a => simp only [M.andThen]; rw [h a rfl]
    | panic s => simp [M.andThen]
    | stuck => simp [M.andThen]

/-! ### `visible` ignores internal names -/

theorem visible_cons_internal (names : List (Option String)) (x : Var) (v : Value) (env : Env)
    (hx : x.isInternal = true) : visible names ((x, v) :: env) = visible names env := by
  unfold visible
  congr 1
  funext nm
  cases nm with
  | none => rfl
  | some s =>
    have : (Var.user s == x) = false := by
      cases x <;> simp_all [Var.isInternal]
    simp [List.lookup, this]

theorem visible_append_internal (names : List (Option String)) (l env : Env)
    (hl : ∀ xv ∈ l, xv.1.isInternal = true) : visible names (l ++ env) = visible names env := by
  induction l with
  | nil => rfl
  | cons xv l ih =>
    obtain ⟨x, v⟩ := xv
    rw [List.cons_append, visible_cons_internal _ _ _ _ (hl (x, v) (by simp))]
    exact ih (fun y hy => hl y (by simp [hy]))

/-! ### keys of the hoisted definitions -/

theorem capDefsOf_b (b : Nat) (acts : List Member) (e : Nat) : ∀ d ∈ capDefsOf b acts e, d.b = b := by
  induction acts generalizing e with
  | nil => simp [capDefsOf]
  | cons m ms ih =>
    intro d hd
    simp only [capDefsOf, List.mem_append] at hd
    rcases hd with hd | hd
    · split at hd
      · unfold hoist at hd
        split at hd
        · simp only [List.mem_filterMap] at hd
          obtain ⟨oi, _, h2⟩ := hd
          split at h2
          · cases h2; rfl
          · cases h2
        · simp at hd
      · simp at hd
    · exact ih (e + 1) d hd

theorem capDefsOf_keys (b b' : Nat) (acts : List Member) (e : Nat) :
    (capDefsOf b acts e).map (fun d => (d.e, d.i)) = (capDefsOf b' acts e).map (fun d => (d.e, d.i)) := by
  induction acts generalizing e with
  | nil => simp [capDefsOf]
  | cons m ms ih =>
    simp only [capDefsOf, List.map_append, ih (e + 1)]
    congr 1
    split
    · unfold hoist
      split
      · simp only [List.map_filterMap]
        congr 1
        funext oi
        split <;> rfl
      · rfl
    · rfl

/-- the positions `e` of hoisted definitions are at least the starting position -/
theorem capDefsOf_e_ge (b : Nat) (acts : List Member) (e : Nat) : ∀ d ∈ capDefsOf b acts e, e ≤ d.e := by
  induction acts generalizing e with
  | nil => simp [capDefsOf]
  | cons m ms ih =>
    intro d hd
    simp only [capDefsOf, List.mem_append] at hd
    rcases hd with hd | hd
    · split at hd
      · unfold hoist at hd
        split at hd
        · simp only [List.mem_filterMap] at hd
          obtain ⟨oi, _, h2⟩ := hd
          split at h2
          · cases h2; exact Nat.le_refl _
          · cases h2
        · simp at hd
      · simp at hd
    · exact Nat.le_of_succ_le (ih (e + 1) d hd)

theorem nodup_of_nodup_map {α β} (f : α → β) (l : List α) (h : (l.map f).Nodup) : l.Nodup := by
  induction l with
  | nil => simp
  | cons x l ih =>
    simp only [List.map_cons, List.nodup_cons] at h
    refine List.nodup_cons.mpr ⟨fun hx => h.1 (List.mem_map.mpr ⟨x, hx, rfl⟩), ih h.2⟩

theorem filterMap_snd_sublist {α} (l : List (α × Nat)) (p : α × Nat → Bool) :
    (l.filterMap (fun x => if p x then some x.2 else none)).Sublist (l.map Prod.snd) := by
  induction l with
  | nil => simp
  | cons x l ih =>
    simp only [List.filterMap_cons, List.map_cons]
    split
    · exact List.Sublist.cons _ ih
    · rename_i a h
      split at h
      · cases h; exact List.Sublist.cons_cons _ ih
      · cases h

theorem hoist_keys_nodup (b e : Nat) (m : Member) : ((hoist b e m).1.map (fun d => (d.e, d.i))).Nodup := by
  apply nodup_of_nodup_map Prod.snd
  unfold hoist
  split
  · simp only [List.map_filterMap, List.map_map]
    have hsub := filterMap_snd_sublist m.ops.zipIdx (fun oi => decide (oi.1.kind = .block))
    have hnd : (m.ops.zipIdx.map Prod.snd).Nodup := by
      rw [List.zipIdx_map_snd]; exact List.nodup_range' 1 (by omega)
    refine List.Nodup.sublist ?_ hnd
    have hf : (fun (x : Operand × Nat) =>
          Option.map Prod.snd
            (Option.map (fun (d : CapDef) => (d.e, d.i))
              (if x.fst.kind = OpKind.block then some { b := b, e := e, i := x.snd, toks := x.fst.toks } else none)))
        = (fun x => if decide (x.fst.kind = OpKind.block) = true then some x.snd else none) := by
      funext oi
      by_cases h : oi.1.kind = .block <;> simp [h]
    rw [hf]
    exact hsub
  · simp

theorem capDefsOf_keys_nodup (b : Nat) (acts : List Member) (e : Nat) :
    ((capDefsOf b acts e).map (fun d => (d.e, d.i))).Nodup := by
  induction acts generalizing e with
  | nil => simp [capDefsOf]
  | cons m ms ih =>
    simp only [capDefsOf, List.map_append]
    refine List.nodup_append.mpr ⟨?_, ih (e + 1), ?_⟩
    · split
      · exact hoist_keys_nodup b e m
      · simp
    · intro x hx y hy hxy
      subst hxy
      -- x comes from position e, y from a position > e
      have h1 : x.1 = e := by
        split at hx
        · unfold hoist at hx
          split at hx
          · simp only [List.map_filterMap, List.mem_filterMap] at hx
            obtain ⟨oi, _, h2⟩ := hx
            split at h2 <;> simp at h2
            rw [← h2]
          · simp at hx
        · simp at hx
      obtain ⟨d, hd, rfl⟩ := List.mem_map.mp hy
      have := capDefsOf_e_ge b ms (e + 1) d hd
      simp only at h1
      omega

end JoinModel
