/-
  Token-level model of the per-branch part of `JoinOutput::generate_step`
  (join_output.rs: process_step_action_expr / wrap_last_step_stream / generate_def_and_step_streams /
  separate_block_expr / expand_process_expr and the closing loop).
-/
import JoinModel.Syntax
import JoinModel.Names
namespace JoinModel

/-- Every `expect(..)` / `unwrap()` / `panic!` site of the per-branch generator is an explicit outcome. -/
inductive ChainErr
  | lastStepStream | stepExprsLenZero | expectedWrapper | replaceFailed | zeroStepStreams
  | popStepStreams | emitPanics (c : Comb) | badTemplate (c : Comb)
  deriving DecidableEq, Repr, Inhabited

/-- Outcomes of `generate_join` other than code: the four whitelisted configuration rejections of
    `JoinOutput::new`, or an internal panic ("This's a bug, please report it"). -/
inductive GenErr
  | handlerNotTry | thenInTry | fcpNotAsync | noBranch
  | internal (e : ChainErr)
  | noSteps
  deriving DecidableEq, Repr, Inhabited

def GenErr.isReject : GenErr → Bool
  | .handlerNotTry | .thenInTry | .fcpNotAsync | .noBranch => true
  | _ => false

def GenErr.name : GenErr → String
  | .handlerNotTry => "CfgReject:handlerNotTry" | .thenInTry => "CfgReject:thenInTry"
  | .fcpNotAsync => "CfgReject:fcpNotAsync" | .noBranch => "CfgReject:noBranch"
  | .internal _ => "InternalPanic:chain"
  | .noSteps => "InternalPanic:noSteps"

/-- `let __ew{b}_{e}_{i} = toks;` -/
structure CapDef where
  b : Nat
  e : Nat
  i : Nat
  toks : Toks
  deriving Repr, Inhabited

/-! ### Emission templates -/

mutual
  def instTmpl : List TmplTok → List Toks → Option Toks
    | [], _ => some []
    | t :: ts, ops => do
      let a ← instTmplTok t ops
      let b ← instTmpl ts ops
      pure (a ++ b)
  def instTmplTok : TmplTok → List Toks → Option Toks
    | .tok t, _ => some [t]
    | .hole i, ops => ops[i]?
    | .group d ts, ops => do
      let inner ← instTmpl ts ops
      pure [TT.group d inner]
end

def emitRow (c : Comb) (n : Nat) : Option (Option (List TmplTok)) :=
  (Tables.emit.find? fun row => row.1 == c && row.2.1 == n).map (·.2.2)

/-- `ToTokens` of the expression constructor `c` applied to operand token lists `ops`. -/
def emitTokens (c : Comb) (ops : List Toks) : Except ChainErr Toks :=
  match emitRow c ops.length with
  | some (some t) =>
    match instTmpl t ops with
    | some r => .ok r
    | none => .error (.badTemplate c)
  | _ => .error (.emitPanics c)

/-! ### Block hoisting (`separate_block_expr`) -/

def isReplaceable (c : Comb) : Bool := Tables.replaceable.contains c
def hasInner (c : Comb) : Bool := Tables.hasInner.contains c

/-- Definitions hoisted out of member `m` at position `(b, e)` and the operand token lists that replace
    the member's own. -/
def hoist (b e : Nat) (m : Member) : List CapDef × List Toks :=
  if isReplaceable m.ctor && hasInner m.ctor then
    (m.ops.zipIdx.filterMap fun (o, i) => if o.kind = .block then some ⟨b, e, i, o.toks⟩ else none,
     m.ops.zipIdx.map fun (o, i) => if o.kind = .block then [(Var.ew b e i).tok] else o.toks)
  else ([], m.ops.map (·.toks))

/-- Definitions hoisted out of the actions of one branch-step: only plain actions (no `>>>`/`<<<` flag)
    contribute (`process_step_action_expr`: the two other arms never call `separate_block_expr` on the
    action's own operands). -/
def capDefsOf (b : Nat) : List Member → Nat → List CapDef
  | [], _ => []
  | m :: ms, e => (if m.mv = .none then (hoist b e m).1 else []) ++ capDefsOf b ms (e + 1)

/-! ### One action applied to the stream built so far (`expand_process_expr` and the two other arms) -/

def applyCtor (isAsync : Bool) (prev : Toks) (c : Comb) (ops : List Toks) : Except ChainErr Toks :=
  match c with
  | .initial => do
    -- the initial value is parenthesised: postfix actions are appended to it
    let e ← emitTokens .initial ops
    pure [paren e]
  | .then_ => do
    let e ← emitTokens .then_ ops
    pure [paren (e ++ [paren prev])]
  | .inspect =>
    match ops with
    | [e] =>
      if isAsync then .ok (prev ++ [pu '.', id' "inspect", paren e])
      else .ok [Var.inspect.tok, paren (e ++ [pu ','] ++ prev)]
    | _ => .error (.badTemplate .inspect)
  | c => do
    let e ← emitTokens c ops
    pure (prev ++ e)

/-! ### The stack of partial chains -/

structure Frame where
  toks : Toks
  /-- wrapper action waiting for its closure, with its position in the step -/
  wrapper : Option (Member × Nat)
  deriving Repr, Inhabited

structure Acc where
  defs : List CapDef
  frames : List Frame          -- head = top of `step_streams`
  deriving Repr, Inhabited

def closureToks (body : Toks) : Toks := [pu '|', Var.v.tok, pu '|'] ++ body

/-- `wrap_last_step_stream(acc, None)` -/
def wrapLast (isAsync : Bool) (acc : Acc) : Except ChainErr Acc :=
  match acc.frames with
  | [] => .error .lastStepStream
  | [_] => .error .stepExprsLenZero
  | inner :: outer :: rest =>
    match outer.wrapper with
    | none => .error .expectedWrapper
    | some (w, _) =>
      if w.ops.length ≠ 1 then .error .replaceFailed else
      match applyCtor isAsync outer.toks w.ctor [closureToks inner.toks] with
      | .ok t => .ok { acc with frames := ⟨t, none⟩ :: rest }
      | .error e => .error e

/-- `process_step_action_expr` for the action `m` at position `e` of its step, branch `b`. -/
def processAction (isAsync : Bool) (b : Nat) (acc : Acc) (m : Member) (e : Nat) : Except ChainErr Acc :=
  match m.mv with
  | .unwrap => wrapLast isAsync acc
  | .wrap =>
    match acc.frames with
    | [] => .error .zeroStepStreams
    | top :: rest => .ok { acc with frames := ⟨[Var.v.tok], none⟩ :: { top with wrapper := some (m, e) } :: rest }
  | .none =>
    match acc.frames with
    | [] => .error .popStepStreams
    | top :: rest =>
      let (defs, ops) := hoist b e m
      match applyCtor isAsync top.toks m.ctor ops with
      | .ok t => .ok ⟨acc.defs ++ defs, ⟨t, none⟩ :: rest⟩
      | .error er => .error er

def processActions (isAsync : Bool) (b : Nat) : Acc → List Member → Nat → Except ChainErr Acc
  | acc, [], _ => .ok acc
  | acc, m :: ms, e =>
    match processAction isAsync b acc m e with
    | .ok acc' => processActions isAsync b acc' ms (e + 1)
    | .error er => .error er

/-- The closing loop at the end of a step: wrappers still open close here. -/
def closeAll (isAsync : Bool) : Nat → Acc → Except ChainErr (List CapDef × Toks)
  | 0, _ => .error .zeroStepStreams
  | fuel + 1, acc =>
    match acc.frames with
    | [] => .error .zeroStepStreams
    | [f] => .ok (acc.defs, f.toks)
    | _ :: _ :: _ =>
      match wrapLast isAsync acc with
      | .ok acc' => closeAll isAsync fuel acc'
      | .error er => .error er

/-- `{ name }` or `async move { name }` -/
def wrapIntoBlock (isAsync : Bool) (t : Toks) : Toks :=
  if isAsync then [id' "async", id' "move", brace t] else [brace t]

/-- The chain expression and the hoisted definitions of branch `b` for a step whose actions are `acts`,
    starting from the variable `prev`.  `none`: the branch has no actions in this step. -/
def genBranchStep (isAsync : Bool) (b : Nat) (prev : Var) (acts : List Member) :
    Except ChainErr (Option (List CapDef × Toks)) :=
  match acts with
  | [] => .ok none
  | _ :: _ =>
    match processActions isAsync b ⟨[], [⟨wrapIntoBlock isAsync [prev.tok], none⟩]⟩ acts 0 with
    | .error er => .error er
    | .ok acc =>
      match closeAll isAsync (acc.frames.length + 1) acc with
      | .ok r => .ok (some r)
      | .error er => .error er

end JoinModel
