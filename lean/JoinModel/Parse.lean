/-
  Model of the parser: `parse_until` (parse/utils.rs), the n-or-empty unit parsers (chain/expr/macros.rs),
  `ActionGroup::parse_stream` (chain/group/action_group.rs), the chain builder (action_expr_chain/builder.rs),
  handlers (handler.rs) and `JoinInputDefault::parse` (join/parse.rs).

  `syn` is outside the model.  Everything the code asks syn is an explicit oracle argument; the harness computes
  the real answers for every input it sends (harness/src/oracle.rs) and theorems quantify over all oracles.
-/
import JoinModel.Determiner
import JoinModel.Syntax
namespace JoinModel

inductive LetInfo
  | notLet
  | identPat (pat : Toks) (ident : String) (rhs : Toks) (rhsBlock : Bool)   -- `let [ref] [mut] ident [@ sub] = rhs`
  | otherPat
  deriving Repr, Inhabited

structure Oracle where
  validExpr : Toks → Bool            -- syn::parse2::<Expr>(ts).is_ok()
  validType : Toks → Bool
  isBlock : Toks → Bool              -- the parsed expression is `Expr::Block`
  letSplit : Toks → LetInfo
  reprintExpr : Toks → Toks          -- tokens of `parsed.to_token_stream()`
  reprintType : Toks → Toks
  exprPrefix : Toks → Option (Nat × Toks)   -- `input.parse::<Expr>()`: trees consumed and the printed expression; none: error
  pathPrefix : Toks → Option Nat     -- trees consumed by `content.parse::<Path>()`
  litBool : Toks → Option Bool       -- `content.parse::<LitBool>()` on the first tree

inductive ParseErr
  | optionTwice (o : String) | multipleHandlers | noBranch | bothWrapUnwrap | notAWrapper | incorrectLet
  | unexpectedUnwrap | emptyChain | foundGroupIdent | unexpectedTokens | notAWrapper2
  | syn (what : String)              -- an error raised by syn itself (message not modelled)
  deriving Repr, Inhabited, DecidableEq

def ParseErr.cls : ParseErr → String
  | .optionTwice o => "OptionTwice:" ++ o | .multipleHandlers => "MultipleHandlers" | .noBranch => "NoBranch"
  | .bothWrapUnwrap => "BothWrapUnwrap" | .notAWrapper => "NotAWrapper" | .incorrectLet => "IncorrectLet"
  | .unexpectedUnwrap => "UnexpectedUnwrap" | .emptyChain => "EmptyChain" | .foundGroupIdent => "FoundGroupIdent"
  | .unexpectedTokens => "UnexpectedTokens" | .notAWrapper2 => "NotAWrapper2" | .syn _ => "Syn"

/-- which syntax an operand is parsed as -/
inductive Syn | expr | type | empty
  deriving DecidableEq, Repr, Inhabited

def Oracle.valid (o : Oracle) : Syn → Toks → Bool
  | .expr, ts => o.validExpr ts
  | .type, ts => o.validType ts
  | .empty, ts => ts.isEmpty

/-- the action that follows a parsed unit -/
structure NextGroup where
  comb : Comb
  deferred : Bool
  mv : Move
  deriving Repr, Inhabited

structure UnitOut where
  toks : Toks                        -- the tokens of the parsed unit
  next : Option NextGroup
  rest : Toks                        -- the input after the unit and its operator
  deriving Repr, Inhabited

def canBeWrapper (c : Comb) : Bool := Tables.canBeWrapper.contains c

/-- `erase_input`: `n` token trees, each via `input.parse::<TokenTree>()` -/
def eraseN : Nat → Toks → Option Toks
  | 0, ts => some ts
  | _ + 1, [] => none
  | n + 1, _ :: ts => eraseN n ts

/-- The scan loop of `parse_until`.  Returns the collected tokens, the determiner that stopped the scan (if any),
    the `deferred` flag of the last iteration, and the input at the stop position. -/
def scan (o : Oracle) (syn : Syn) (allowEmpty : Bool) :
    Nat → Toks → Toks → Bool → Except ParseErr (Toks × Option DetRow × Bool × Toks)
  | 0, _, _, _ => .error (.syn "fuel")
  | _ + 1, acc, [], deferred => .ok (acc, none, deferred, [])
  | fuel + 1, acc, input, _ =>
    let deferred := Tables.deferredDet.check input
    let input' := if deferred then input.drop Tables.deferredDet.len else input
    let possible := firstMatch input'
    let stop := match possible with
      | some _ => (acc.isEmpty && allowEmpty) || o.valid syn acc
      | none => false
    if stop then .ok (acc, possible, deferred, input')
    else
      match input' with
      | [] => .error (.syn "unexpected end of input")
      | t :: rest => scan o syn allowEmpty fuel (acc ++ [t]) rest deferred

/-- `parse_until::<T>(input, …, allow_empty)` -/
def parseUntil (o : Oracle) (syn : Syn) (allowEmpty : Bool) (input : Toks) : Except ParseErr UnitOut :=
  match scan o syn allowEmpty (input.length + 1) [] input false with
  | .error e => .error e
  | .ok (toks, next, deferred, input') =>
    let after : Except ParseErr (Bool × Toks) :=
      match next with
      | none => .ok (false, input')
      | some g =>
        match g.comb with
        | none =>
          match eraseN g.len input' with
          | some r => .ok (false, r)
          | none => .error (.syn "unexpected end of input")
        | some c =>
          match eraseN g.len input' with
          | none => .error (.syn "unexpected end of input")
          | some forked =>
            let wrap := Tables.wrapperDet.check forked
            if wrap && c == .unwrap then .error .bothWrapUnwrap
            else if wrap && !canBeWrapper c then .error .notAWrapper
            else
              let r := if wrap then forked.drop Tables.wrapperDet.len else forked
              .ok (wrap, r)
    match after with
    | .error e => .error e
    | .ok (wrap, rest) =>
      if !o.valid syn toks then .error (if syn = .empty then .unexpectedTokens else .syn "operand") else
      .ok {
        toks := toks
        next := next.bind fun g => g.comb.map fun c =>
          ⟨c, deferred, if wrap then .wrap else if c == .unwrap then .unwrap else .none⟩
        rest := rest }

/-- `input.parse::<Token![,]>()` -/
def eatComma : Toks → Option Toks
  | .punct ',' _ :: r => some r
  | _ => none

/-- units `index … count-1` of an n-unit operand list -/
def parseUnits (o : Oracle) (syn : Syn) : (remaining : Nat) → Toks → List Toks → Except ParseErr (List Toks × Option NextGroup × Toks)
  | 0, input, acc => .ok (acc, none, input)
  | n + 1, input, acc =>
    match parseUntil o syn false input with
    | .error e => .error e
    | .ok u =>
      if n = 0 then .ok (acc ++ [u.toks], u.next, u.rest)
      else
        match eatComma u.rest with
        | none => .error (.syn "expected `,`")
        | some rest =>
          if u.next.isSome then .error .foundGroupIdent
          else parseUnits o syn n rest (acc ++ [u.toks])

/-- `parse_n_or_empty_unit`: the operands (none when the unit is empty) and what follows -/
def parseNOrEmpty (o : Oracle) (syn : Syn) (count : Nat) (allowEmpty : Bool) (input : Toks) :
    Except ParseErr (Option (List Toks) × Option NextGroup × Toks) :=
  let first : Option UnitOut :=
    if allowEmpty then
      match parseUntil o .empty true input with
      | .ok u => some u
      | .error _ => none
    else none
  match first with
  | some u => .ok (none, u.next, u.rest)
  | none =>
    match parseUnits o syn count input [] with
    | .error e => .error e
    | .ok (ops, next, rest) => .ok (if count = 0 then some [] else some ops, next, rest)

def arityOf (c : Comb) : Option Arity := Tables.arity.lookup c

def wrapperCtorOf (c : Comb) : Option Comb := Tables.wrapperCtor.lookup c

def mkOperand (o : Oracle) (k : OperandKind) (ts : Toks) : Operand :=
  match k with
  | .type => ⟨.type, o.reprintType ts⟩
  | .expr => ⟨if o.isBlock ts then .block else .expr, o.reprintExpr ts⟩

/-- `ActionGroup::parse_stream`: one member and the group that follows it -/
def parseGroup (o : Oracle) (g : NextGroup) (input : Toks) :
    Except ParseErr ((Member × List Toks) × Option NextGroup × Toks) :=
  if g.mv = .wrap then
    match wrapperCtorOf g.comb with
    | none => .error .notAWrapper2
    | some ctor =>
      match parseUntil o .empty true input with
      | .error e => .error e
      | .ok u => .ok ((⟨ctor, g.deferred, .wrap, [⟨.expr, Tables.wrapperPlaceholder⟩]⟩, []), u.next, u.rest)
  else
    match arityOf g.comb with
    | none => .error (.syn "no arity")
    | some ar =>
      let syn : Syn := if ar.count = 0 then .empty else match ar.kind with | .expr => .expr | .type => .type
      match parseNOrEmpty o syn ar.count ar.allowEmpty input with
      | .error e => .error e
      | .ok (ops, next, rest) =>
        .ok ((⟨ar.ctor, g.deferred, g.mv, (ops.getD []).map (mkOperand o ar.kind)⟩, ops.getD []), next, rest)

/-- `>>>` opens a wrapper, `<<<` closes one -/
def mvDelta : Move → Int
  | .wrap => 1
  | .unwrap => -1
  | .none => 0

/-- the chain builder's loop -/
def buildChain (o : Oracle) : Nat → NextGroup → Toks → List Member → Option BranchPat → Int → Bool →
    Except ParseErr (Branch × Toks)
  | 0, _, _, _, _, _, _ => .error (.syn "fuel")
  | fuel + 1, g, input, members, pat, wcount, isFirst =>
    match parseGroup o g input with
    | .error e => .error e
    | .ok ((m, raws), next, rest) =>
      -- the first member is the initial value: `let` handling (asked about the source tokens of the unit)
      let first : Except ParseErr (Member × Option BranchPat) :=
        if isFirst then
          match raws with
          | [raw] =>
            match o.letSplit raw with
            | .notLet => .ok (m, pat)
            | .otherPat => .error .incorrectLet
            | .identPat p i rhs blk => .ok ({ m with ops := [⟨if blk then .block else .expr, rhs⟩] }, some ⟨p, i⟩)
          | _ => .ok (m, pat)
        else .ok (m, pat)
      match first with
      | .error e => .error e
      | .ok (m', pat') =>
        let members' := members ++ [m']
        match next with
        | some nx =>
          let w0 : Int := if nx.deferred then 0 else wcount
          let w1 : Int := w0 + mvDelta nx.mv
          if w1 < 0 then .error .unexpectedUnwrap
          else buildChain o fuel nx rest members' pat' w1 false
        | none =>
          let lastBlock : Bool := match m'.ops.getLast? with
            | some op => decide (op.kind = .block) && hasInnerOp m'.ctor
            | none => false
          if lastBlock then
            .ok (⟨pat', members'⟩, (eatComma rest).getD rest)
          else if rest.isEmpty then .ok (⟨pat', members'⟩, rest)
          else
            match eatComma rest with
            | some r => .ok (⟨pat', members'⟩, r)
            | none => .error (.syn "expected `,`")
where
  hasInnerOp (c : Comb) : Bool := Tables.hasInner.contains c

/-- `Handler::peek_*_handler`, in `try_from`'s order -/
def handlerKw (input : Toks) : Option HKind :=
  if checkSeq [.kw "then", .punct ['=', '>']] input then some .then_
  else if checkSeq [.kw "and_then", .punct ['=', '>']] input then some .andThen
  else if checkSeq [.kw "map", .punct ['=', '>']] input then some .map
  else none

/-- `Handler::try_from` -/
def parseHandlerItem (o : Oracle) (input : Toks) : Except ParseErr ((HKind × Toks) × Toks) :=
  match handlerKw input with
  | none => .error (.syn "Failed to parse `Handler`")
  | some k =>
    let body := input.drop 3
    match o.exprPrefix body with
    | none => .error (.syn "expected expression")
    | some (n, e) =>
      let rest := body.drop n
      .ok ((k, e), (eatComma rest).getD rest)

structure Opts where
  fcp : Option Toks := none
  joiner : Option Toks := none
  transpose : Option Bool := none
  lazy : Option Bool := none
  unexpected : Bool := false        -- a parenthesised option argument was not consumed completely
  deriving Repr, Inhabited

def optionKw : Toks → Option String
  | .ident s :: _ => if Tables.optionOrder.contains s then some s else none
  | _ => none

/-- one option `keyword ( … )` -/
def parseOption (o : Oracle) (kw : String) (input : Toks) (opts : Opts) : Except ParseErr (Opts × Toks) :=
  match input with
  | _ :: .group .paren content :: rest =>
    if kw = "futures_crate_path" then
      if opts.fcp.isSome then .error (.optionTwice "fcp") else
      match o.pathPrefix content with
      | none => .error (.syn "path")
      | some n => .ok ({ opts with fcp := some (content.take n), unexpected := opts.unexpected || decide (n < content.length) }, rest)
    else if kw = "custom_joiner" then
      if opts.joiner.isSome then .error (.optionTwice "joiner") else .ok ({ opts with joiner := some content }, rest)
    else if kw = "transpose_results" then
      if opts.transpose.isSome then .error (.optionTwice "transpose") else
      match o.litBool content with
      | none => .error (.syn "expected boolean literal")
      | some b => .ok ({ opts with transpose := some b, unexpected := opts.unexpected || decide (1 < content.length) }, rest)
    else
      if opts.lazy.isSome then .error (.optionTwice "lazy") else
      match o.litBool content with
      | none => .error (.syn "expected boolean literal")
      | some b => .ok ({ opts with lazy := some b, unexpected := opts.unexpected || decide (1 < content.length) }, rest)
  | _ => .error (.syn "expected parentheses")

/-- One round of the option loop: the four keywords are tried in the table's order. -/
def optionRound (o : Oracle) : List String → Toks → Opts → Except ParseErr (Opts × Toks)
  | [], input, opts => .ok (opts, input)
  | kw :: kws, input, opts =>
    if optionKw input = some kw then
      match parseOption o kw input opts with
      | .error e => .error e
      | .ok (opts', rest) => optionRound o kws rest opts'
    else optionRound o kws input opts

def parseOptions (o : Oracle) : Nat → Nat → Toks → Opts → Except ParseErr (Opts × Toks)
  | 0, _, _, _ => .error (.syn "fuel")
  | _, 0, input, opts => .ok (opts, input)
  | fuel + 1, rounds + 1, input, opts =>
    if Tables.optionRounds.isNone && (optionKw input).isNone then .ok (opts, input) else
    match optionRound o Tables.optionOrder input opts with
    | .error e => .error e
    | .ok (opts', rest) => parseOptions o fuel rounds rest opts'

def parseItems (o : Oracle) : Nat → Toks → List Branch → Option (HKind × Toks) → Except ParseErr (List Branch × Option (HKind × Toks))
  | 0, _, _, _ => .error (.syn "fuel")
  | _ + 1, [], bs, h => .ok (bs, h)
  | fuel + 1, input, bs, h =>
    if (handlerKw input).isSome then
      if h.isSome then .error .multipleHandlers else
      match parseHandlerItem o input with
      | .error e => .error e
      | .ok (hd, rest) => parseItems o fuel rest bs (some hd)
    else
      match buildChain o (input.length + 2) ⟨.initial, false, .none⟩ input [] none 0 true with
      | .error e => .error e
      | .ok (b, rest) => parseItems o fuel rest (bs ++ [b]) h

/-- `JoinInputDefault::parse` -/
def parseMacroInput (o : Oracle) (input : Toks) : Except ParseErr Input :=
  let rounds := match Tables.optionRounds with | some n => n | none => input.length + 1
  match parseOptions o (input.length + 1) rounds input {} with
  | .error e => .error e
  | .ok (opts, rest) =>
    match parseItems o (rest.length + 2) rest [] none with
    | .error e => .error e
    | .ok (bs, h) =>
      if bs.isEmpty then .error .noBranch
      else if opts.unexpected then .error (.syn "unexpected token")
      else .ok { fcp := opts.fcp, joiner := opts.joiner, transpose := opts.transpose, lazy := opts.lazy, handler := h, branches := bs }

end JoinModel
