/-
  C12 — `let` names expose each branch's latest step result to later captures.
-/
import JoinModel.Props.Common
namespace JoinModel.Props.C12
open JoinModel JoinModel.Props

/-- Every block capture of step k sees exactly `visibleSpec names vals`, where `vals` are the branches' values
    at the start of step k. -/
theorem capture_sees_names (sc : SpecCfg) (k : Nat) (vals : List (Option Value)) :
    ∀ e ∈ (specCapsAll sc k (visibleSpec sc.names vals) (sc.active k)).trace,
      ∃ b e' i, e = .ev (.cap b k e' i (visibleSpec sc.names vals)) := by
  intro e he
  obtain ⟨b, _, ei, _, rfl⟩ := specCapsAll_trace sc k _ _ e he
  exact ⟨b, ei.1, ei.2, rfl⟩

/-- What the names are bound to: the name of branch i maps to branch i's most recent step result — in try macros
    still wrapped — also after the branch has finished (a finished branch keeps its value, C04). -/
theorem name_bound_to_latest (names : List (Option String)) (vals : List (Option Value)) (i : Nat) (s : String)
    (v : Value) (hn : names[i]? = some (some s)) (hv : vals[i]? = some (some v)) :
    (s, v) ∈ visibleSpec names vals := by
  simp only [visibleSpec, List.mem_filterMap]
  refine ⟨(some s, some v), ?_, rfl⟩
  have hi1 : i < names.length := by
    rcases Nat.lt_or_ge i names.length with h | h
    · exact h
    · rw [List.getElem?_eq_none h] at hn; cases hn
  have hi2 : i < vals.length := by
    rcases Nat.lt_or_ge i vals.length with h | h
    · exact h
    · rw [List.getElem?_eq_none h] at hv; cases hv
  rw [List.getElem?_eq_getElem hi1] at hn
  rw [List.getElem?_eq_getElem hi2] at hv
  apply List.mem_iff_getElem.mpr
  refine ⟨i, by simp; omega, ?_⟩
  simp only [List.getElem_zip]
  rw [Option.some.inj hn, Option.some.inj hv]

/-- In step 0 no name of a branch is visible yet. -/
theorem nothing_visible_in_step_0 (names : List (Option String)) (n : Nat) :
    visibleSpec names (List.replicate n none) = [] := by
  simp only [visibleSpec, List.filterMap_eq_nil_iff]
  intro nv hnv
  obtain ⟨nm, v⟩ := nv
  have := (List.of_mem_zip hnv).2
  simp only [List.mem_replicate] at this
  rw [this.2]
  cases nm <;> rfl

/-- only names are visible: an unnamed branch contributes nothing -/
theorem unnamed_invisible (names : List (Option String)) (vals : List (Option Value)) :
    ∀ sv ∈ visibleSpec names vals, some sv.1 ∈ names := by
  intro sv hsv
  simp only [visibleSpec, List.mem_filterMap] at hsv
  obtain ⟨nv, hnv, h⟩ := hsv
  obtain ⟨nm, v⟩ := nv
  cases nm with
  | none => simp at h
  | some s =>
    cases v with
    | none => simp at h
    | some v =>
      simp at h
      rw [← h]
      exact (List.of_mem_zip hnv).1

/-- In the generated code the names are visible to user code exactly as in the reference semantics (the invariant
    of the refinement proof: `visible names env = visibleSpec names vals`). -/
theorem generated_visibility {c : Ctx} {names : List (Option String)} (ok : CtxOK c names) {k : Nat} {env : Env}
    {vals : List (Option Value)} (hinv : Inv c names k env vals) : visible names env = visibleSpec names vals :=
  visible_eq ok hinv

end JoinModel.Props.C12
