/-
  The central theorem for the sequential and thread-spawning macros:

      gen p kind = ok code  →  evalCode σ parent code = specRun σ parent p kind

  for every parsed program `p` (any number of branches, any depth profile, any operators, captures, names,
  handler), every user world `σ` and every calling thread — the meaning of the generated code is the
  reference step loop.  Events and results, including panics.
-/
import JoinModel.Lemmas.LoopRefine
namespace JoinModel

/-- What every refinement theorem assumes about the program. -/
structure SupportedBase (p : Input) : Prop where
  noJoiner : p.joiner = none
  noLazy : p.lazy = none
  /-- what the parser guarantees: a branch starts with its initial value -/
  firstInitial : ∀ b ∈ p.branches, ∃ m ms, b.members = m :: ms ∧ m.deferred = false ∧ m.ctor = .initial
  /-- `let` names are pairwise distinct (rustc rejects `let (a, a) = …`) -/
  namesNodup : (p.branches.filterMap fun b => b.pat.map (·.ident)).Nodup

/-- The inputs `sync_refines` speaks about. -/
structure Supported (p : Input) (kind : Kind) : Prop extends SupportedBase p where
  /-- the async try macros have their own theorem (`async_try_refines`): their `try_join!` returns as soon as one
      operand fails -/
  asyncNotTry : kind.isAsync = true → kind.isTry = false
  transposeDefault : p.transpose ≠ some false

def namesOf (p : Input) : List (Option String) := p.branches.map fun b => b.pat.map (·.ident)

/-! ### the context built by `mkCtx` is well-formed -/

theorem branchVars_mem (bs : List Branch) (i0 : Nat) (x : Var)
    (hx : x ∈ (bs.zipIdx i0).map fun (bi : Branch × Nat) => (branchPat bi.2 bi.1).var) :
    (∃ s, s ∈ bs.filterMap (fun b => b.pat.map (·.ident)) ∧ x = .user s) ∨ (∃ j, i0 ≤ j ∧ x = .r j) := by
  induction bs generalizing i0 with
  | nil => simp at hx
  | cons b bs ih =>
    simp only [List.zipIdx_cons, List.map_cons, List.mem_cons] at hx
    rcases hx with rfl | hx
    · unfold branchPat
      cases hp : b.pat with
      | none => exact Or.inr ⟨i0, Nat.le_refl _, rfl⟩
      | some pt => exact Or.inl ⟨pt.ident, by simp [hp], rfl⟩
    · rcases ih (i0 + 1) hx with ⟨s, hs, rfl⟩ | ⟨j, hj, rfl⟩
      · refine Or.inl ⟨s, ?_, rfl⟩
        simp only [List.filterMap_cons]
        cases b.pat.map (·.ident) with
        | none => exact hs
        | some _ => exact List.mem_cons_of_mem _ hs
      · exact Or.inr ⟨j, by omega, rfl⟩

theorem branchVars_nodup (bs : List Branch) (i0 : Nat)
    (h : (bs.filterMap fun b => b.pat.map (·.ident)).Nodup) :
    ((bs.zipIdx i0).map fun (bi : Branch × Nat) => (branchPat bi.2 bi.1).var).Nodup := by
  induction bs generalizing i0 with
  | nil => simp
  | cons b bs ih =>
    simp only [List.zipIdx_cons, List.map_cons, List.nodup_cons]
    have hrest : (bs.filterMap fun b => b.pat.map (·.ident)).Nodup := by
      simp only [List.filterMap_cons] at h
      cases hb : b.pat.map (·.ident) with
      | none => simpa [hb] using h
      | some s => rw [hb] at h; exact (List.nodup_cons.mp h).2
    refine ⟨?_, ih (i0 + 1) hrest⟩
    intro hmem
    rcases branchVars_mem bs (i0 + 1) _ hmem with ⟨s, hs, heq⟩ | ⟨j, hj, heq⟩
    · unfold branchPat at heq
      cases hp : b.pat with
      | none => simp [hp] at heq
      | some pt =>
        simp only [hp, Var.user.injEq] at heq
        simp only [List.filterMap_cons, hp, Option.map_some] at h
        exact (List.nodup_cons.mp h).1 (heq ▸ hs)
    · unfold branchPat at heq
      cases hp : b.pat with
      | none => simp only [hp, Var.r.injEq] at heq; omega
      | some pt => simp [hp] at heq

theorem mkCtx_ok {p : Input} {kind : Kind} (hs : SupportedBase p) {c : Ctx} (h : mkCtx p kind = .ok c) :
    CtxOK c (namesOf p) ∧ c.kind = kind ∧ c.chains = p.branches.map (fun b => splitSteps b.members) ∧
    c.transpose = p.transpose.getD (kind.isTry && !kind.isAsync) ∧
    c.n = p.branches.length ∧ 0 < c.n ∧ c.maxSteps = (c.chains.map (·.length)).foldl max 0 ∧
    (kind.isTry = false → ∀ t, p.handler ≠ some (.map, t) ∧ p.handler ≠ some (.andThen, t)) ∧
    (kind.isTry = true → ∀ t, p.handler ≠ some (.then_, t)) := by
  unfold mkCtx at h
  simp only at h
  split at h
  · cases h
  · rename_i h1
    split at h
    · cases h
    · rename_i h2
      split at h
      · cases h
      · split at h
        · cases h
        · rename_i h4
          cases h
          have hne : p.branches ≠ [] := by
            intro he; simp [he] at h4
          refine ⟨?_, rfl, rfl, rfl, rfl, ?_, rfl, ?_, ?_⟩
          · refine ⟨hs.noJoiner, ?_, by simp, rfl, by simp, by simp [namesOf], ?_, ?_, ?_, ?_⟩
            · simp [hs.noLazy, Kind.threads]
            · simp only [Ctx.vars, List.map_map]
              exact branchVars_nodup p.branches 0 hs.namesNodup
            · intro i hi
              simp only at hi
              simp only [Ctx.varOf, namesOf, List.getElem?_map, List.getElem?_eq_getElem hi, Option.map_some]
              have hz : (p.branches.zipIdx 0)[i]? = some (p.branches[i], i) := by
                rw [List.getElem?_zipIdx]; simp [hi]
              simp only [hz, Option.map_some, Option.getD_some]
              unfold branchPat
              cases p.branches[i].pat <;> rfl
            · intro ch hch g hg
              obtain ⟨b, hb, rfl⟩ := List.mem_map.mp hch
              obtain ⟨m, ms, hm, hd, _⟩ := hs.firstInitial b hb
              rw [hm] at hg
              exact splitSteps_all_nonempty m ms hd g hg
            · intro ch hch
              obtain ⟨b, hb, rfl⟩ := List.mem_map.mp hch
              obtain ⟨m, ms, hm, hd, hc⟩ := hs.firstInitial b hb
              obtain ⟨g, gs, hg⟩ := splitSteps_head m ms hd
              exact ⟨m, g, gs, by rw [hm, hg], hc⟩
          · exact List.length_pos_iff.mpr hne
          · intro htry t
            simp only [htry, Bool.not_false, Bool.true_and] at h1
            constructor <;> intro hh <;> simp [Input.isMapOrAndThen, hh] at h1
          · intro htry t hh
            simp [htry, Input.isThen, hh] at h2

/-! ### post-conditions of the reference loop -/

theorem firstFail_none_payloads (l : List Value) (h : firstFail l = none) :
    (l.filterMap payload?).length = l.length := by
  induction l with
  | nil => rfl
  | cons v l ih =>
    simp only [firstFail] at h
    split at h
    · rename_i hv
      cases v <;> simp_all [Value.isSucc, payload?]
    · cases h

theorem allSome_length (vals : List (Option Value)) (finals : List Value) (h : allSome vals = some finals) :
    finals.length = vals.length := by
  induction vals generalizing finals with
  | nil => simp [allSome] at h; subst h; rfl
  | cons v vals ih =>
    cases v with
    | none => simp [allSome] at h
    | some v =>
      simp only [allSome] at h
      cases hr : allSome vals with
      | none => simp [hr] at h
      | some fs => simp [hr] at h; subst h; simp [ih fs hr]

theorem specLoop_post (sc : SpecCfg) (rem k : Nat) (vals : List (Option Value)) (f : Fin)
    (h : (specLoop sc rem k vals).res = .ok f) :
    match f with
    | .vals vs => vs.length = vals.length
    | .failed v => v.isSucc = false ∧ sc.kind.isTry = true := by
  induction rem generalizing k vals with
  | zero =>
    rw [specLoop] at h
    obtain ⟨caps, _, h⟩ := M.andThen_res_ok h
    obtain ⟨news, _, h⟩ := M.andThen_res_ok h
    simp only at h
    cases hall : allSome (updVals vals (sc.active k) news) with
    | none => simp [hall, M.stuck] at h
    | some finals =>
      simp only [hall] at h
      have hlen := allSome_length _ _ hall
      rw [updVals_length] at hlen
      by_cases htry : sc.kind.isTry = true
      · simp only [htry, if_true] at h
        cases hff : firstFail finals with
        | some v => simp [hff, M.ret] at h; subst h; exact ⟨firstFail_isSucc_false hff, htry⟩
        | none =>
          simp [hff, M.ret] at h; subst h
          simp only
          rw [firstFail_none_payloads _ hff, hlen]
      · simp only [htry, Bool.false_eq_true, if_false, M.ret] at h
        cases h
        exact hlen
  | succ rem ih =>
    rw [specLoop] at h
    obtain ⟨caps, _, h⟩ := M.andThen_res_ok h
    obtain ⟨news, _, h⟩ := M.andThen_res_ok h
    simp only at h
    by_cases htry : sc.kind.isTry = true
    · simp only [htry, if_true] at h
      cases hff : firstFail news with
      | some v => simp [hff, M.ret] at h; subst h; exact ⟨firstFail_isSucc_false hff, htry⟩
      | none =>
        simp only [hff] at h
        have := ih _ _ h
        cases f with
        | vals vs => simpa [updVals_length] using this
        | failed v => exact this
    · simp only [htry, Bool.false_eq_true, if_false] at h
      have := ih _ _ h
      cases f with
      | vals vs => simpa [updVals_length] using this
      | failed v => exact this

/-! ### the theorem -/

/-- The refinement argument around the step loop: handler definition in front, handler call behind.  `loop` is the
    reference loop (`specLoop` for `sync_refines`, `specLoopAT` for the async try macros); `hmainH` is the induction over
    the steps for it, `hpostH` what it guarantees about its outcome. -/
theorem refines_gen (σ : World) (parent : Option String) (p : Input) (kind : Kind) (code : Code)
    (hs : SupportedBase p) (hgen : gen p kind = .ok code)
    (loop : SpecCfg → Nat → Nat → List (Option Value) → M Fin)
    (hmainH : ∀ (c : Ctx) (steps : Steps), CtxOK c (namesOf p) → c.kind = kind →
      c.transpose = p.transpose.getD (kind.isTry && !kind.isAsync) →
      c.activeIdx 0 = List.range c.n →
      (∀ b ∈ c.activeIdx 0, usesPrev ((specCfgOf σ parent (namesOf p) c).acts b 0) = false) →
      0 < c.n → c.maxSteps = (c.chains.map (·.length)).foldl max 0 → c.maxSteps ≠ 0 →
      genSteps c (c.maxSteps - 1) 0 = .ok steps → Inv c (namesOf p) 0 [] (List.replicate c.n none) →
      evalSteps (cfgOf σ parent (namesOf p)) [] steps =
        (loop (specCfgOf σ parent (namesOf p) c) (c.maxSteps - 1) 0 (List.replicate c.n none)).andThen fun f =>
          M.ret (encode c.kind.isTry f))
    (hpostH : ∀ (c : Ctx) (f : Fin), CtxOK c (namesOf p) → c.kind = kind →
      (loop (specCfgOf σ parent (namesOf p) c) (c.maxSteps - 1) 0 (List.replicate c.n none)).res = .ok f →
      match f with
      | .vals vs => vs.length = c.n
      | .failed v => v.isSucc = false ∧ kind.isTry = true) :
    evalCode σ parent code =
      let c : SpecCfg := ⟨σ, kind, p.branches.map (fun b => b.pat.map (·.ident)), parent,
                          p.branches.map fun b => splitSteps b.members⟩
      (match p.handler with
        | some _ => (M.tell [.ev .handlerDef]).andThen fun _ => M.lift σ.handlerDef.toRes
        | none => M.ret ()).andThen fun _ =>
      (loop c (c.maxDepth - 1) 0 (List.replicate c.n none)).andThen fun f =>
      specHandle c (p.handler.map Prod.fst) f := by
  unfold gen at hgen
  split at hgen
  · cases hgen
  · rename_i c hc
    split at hgen
    · cases hgen
    · rename_i hmax
      split at hgen
      · cases hgen
      · rename_i steps hsteps
        cases hgen
        obtain ⟨ok, hkind, hchains, htrans, hn, hpos, hmaxeq, hnotry, htryh⟩ := mkCtx_ok hs hc
        have hsc : specCfgOf σ parent (namesOf p) c =
            ⟨σ, kind, p.branches.map (fun b => b.pat.map (·.ident)), parent,
              p.branches.map fun b => splitSteps b.members⟩ := by
          simp [specCfgOf, hkind, hchains, namesOf]
        have hall0 : c.activeIdx 0 = List.range c.n := by
          simp only [Ctx.activeIdx]
          apply List.filter_eq_self.mpr
          intro i hi
          have hi' := List.mem_range.mp hi
          rw [isActive_eq ok σ parent]
          have hic : i < c.chains.length := ok.nEq ▸ hi'
          obtain ⟨m, g, gs, hch, _⟩ := ok.firstInitial c.chains[i] (List.getElem_mem hic)
          have hd : (specCfgOf σ parent (namesOf p) c).depth i = c.chains[i].length := by
            simp [SpecCfg.depth, specCfgOf, List.getElem?_eq_getElem hic]
          simp [hd, hch]
        have hfirst0 : ∀ b ∈ c.activeIdx 0, usesPrev ((specCfgOf σ parent (namesOf p) c).acts b 0) = false := by
          intro b hb
          have hb' := activeIdx_lt 0 b hb
          have hbc : b < c.chains.length := ok.nEq ▸ hb'
          obtain ⟨m, g, gs, hch, hm⟩ := ok.firstInitial c.chains[b] (List.getElem_mem hbc)
          simp [SpecCfg.acts, specCfgOf, List.getElem?_eq_getElem hbc, hch, usesPrev, hm]
        have hinv0 : Inv c (namesOf p) 0 [] (List.replicate c.n none) := by
          refine ⟨by simp, ?_, fun h => absurd h (Nat.lt_irrefl 0)⟩
          intro i hi
          simp [List.lookup, hi]
        have hmain := hmainH c steps ok hkind htrans hall0 hfirst0 hpos hmaxeq hmax hsteps hinv0
        unfold evalCode
        simp only
        have hcfg : (⟨σ, p.branches.map (fun b => b.pat.map (·.ident)), parent⟩ : EvalCfg) = cfgOf σ parent (namesOf p) := rfl
        rw [hcfg, hmain, hsc]
        have hmd : (⟨σ, kind, p.branches.map (fun b => b.pat.map (·.ident)), parent,
              p.branches.map fun b => splitSteps b.members⟩ : SpecCfg).maxDepth = c.maxSteps := by
          rw [hmaxeq, hchains]; rfl
        have hnn : (⟨σ, kind, p.branches.map (fun b => b.pat.map (·.ident)), parent,
              p.branches.map fun b => splitSteps b.members⟩ : SpecCfg).n = c.n := by
          simp [SpecCfg.n, hn]
        rw [hmd, hnn]
        congr 1
        · cases p.handler <;> rfl
        funext _
        rw [M.andThen_assoc]
        apply M.andThen_congr
        intro f hf
        have hpost := hpostH c f ok hkind (by rw [hsc]; exact hf)
        simp only [M.ret_andThen, hkind]
        -- the handler
        cases hh : p.handler with
        | none =>
          simp only [genHandle, evalHandle, specHandle, Option.map_none]
          cases f with
          | vals vs => simp [encode]
          | failed v => simp [encode]
        | some ht =>
          obtain ⟨hk, t⟩ := ht
          have hrl : ((List.range c.n).map Var.r).length = c.n := by simp
          cases f with
          | failed v =>
            obtain ⟨hv, htry⟩ := hpost
            have htry' : kind.isTry = true := htry
            cases hk with
            | then_ => exact absurd hh (htryh htry' t)
            | map =>
              simp only [genHandle, evalHandle, specHandle, Option.map_some, encode]
              cases v <;> simp_all [Value.isSucc]
            | andThen =>
              simp only [genHandle, evalHandle, specHandle, Option.map_some, encode]
              cases v <;> simp_all [Value.isSucc]
          | vals vs =>
            have hvl : vs.length = c.n := by simpa using hpost
            cases hk with
            | then_ =>
              have htry : kind.isTry = false := by
                cases hkt : kind.isTry with
                | false => rfl
                | true => exact absurd hh (htryh hkt t)
              simp only [genHandle, evalHandle, specHandle, Option.map_some, encode, htry, Bool.false_eq_true,
                if_false, evalCall, hrl]
              rw [← hvl, untuple_mkTuple]
              rfl
            | map =>
              have htry : kind.isTry = true := by
                cases hkt : kind.isTry with
                | true => rfl
                | false => exact absurd hh (hnotry hkt t).1
              simp only [genHandle, evalHandle, specHandle, Option.map_some, encode, htry, if_true, evalCall, hrl]
              rw [← hvl, untuple_mkTuple]
              rfl
            | andThen =>
              have htry : kind.isTry = true := by
                cases hkt : kind.isTry with
                | true => rfl
                | false => exact absurd hh (hnotry hkt t).2
              simp only [genHandle, evalHandle, specHandle, Option.map_some, encode, htry, if_true, evalCall, hrl]
              rw [← hvl, untuple_mkTuple]
              rfl

/-- **Refinement** for the sequential, thread-spawning and non-try async macros. -/
theorem sync_refines (σ : World) (parent : Option String) (p : Input) (kind : Kind) (code : Code)
    (hs : Supported p kind) (hgen : gen p kind = .ok code) :
    evalCode σ parent code = specRun σ parent p kind := by
  refine refines_gen σ parent p kind code hs.toSupportedBase hgen specLoop ?_
    (fun c f _ hkind h => by
      have := specLoop_post _ _ _ _ f h
      cases f with
      | vals vs => simpa using this
      | failed v => exact ⟨this.1, by rw [← hkind]; exact this.2⟩)
  intro c steps ok hkind htrans hall0 hfirst0 hpos hmaxeq hmax hsteps hinv0
  have hnt : c.kind.isAsync = true → c.kind.isTry = false := by rw [hkind]; exact hs.asyncNotTry
  have htrT : c.kind.isTry = true → c.transpose = true := by
    rw [hkind, htrans]
    intro htry
    have hna : kind.isAsync = false := by
      cases ha : kind.isAsync with
      | false => rfl
      | true => rw [hs.asyncNotTry ha] at htry; cases htry
    simp only [htry, hna]
    cases ht : p.transpose with
    | none => rfl
    | some b =>
      cases b with
      | true => rfl
      | false => exact absurd ht hs.transposeDefault
  exact evalSteps_eq ok σ parent hall0 hfirst0 hpos hnt htrT (c.maxSteps - 1) 0 [] _ steps hinv0 hsteps

end JoinModel
