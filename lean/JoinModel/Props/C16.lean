/-
  C16 — options: custom joiner, lazy branches, transpose switch, crate path.
  Statements about the structured code `genStep` / `genLink` / `genFinal` produce, for every context
  (∀ programs, kinds, option values).  "Options are accepted in any order and subset, each at most once" is a
  property of the parser: K1 enumerates every subset, permutation and duplicate position (Props/C15).
-/
import JoinModel.Lemmas.CtxFacts
import JoinModel.Print
namespace JoinModel.Props.C16
open JoinModel

/-- how the step's operands are joined -/
theorem joiner_once_per_step (c : Ctx) (k : Nat) (s : StepCode) (h : genStep c k = .ok s) :
    s.form =
      (if c.activeCount k > 1 then
        match c.joiner with
        | some j => JoinForm.call j
        | none =>
          if c.kind.isAsync then
            JoinForm.futJoin ((c.fcp.getD []) ++ [pj ':', pu ':', id' (if c.kind.isTry then "try_join" else "join"), pu '!'])
              c.kind.isTry
          else JoinForm.tuple
       else if c.kind.isAsync then JoinForm.awaitCat else JoinForm.tuple) := by
  unfold genStep at h
  split at h
  · cases h
  · cases h
    by_cases hm : c.activeCount k > 1
    · simp only [hm, decide_true, if_true]
      cases c.joiner with
      | some j => rfl
      | none => by_cases ha : c.kind.isAsync <;> simp [ha]
    · simp only [hm, decide_false, Bool.false_eq_true, if_false]

/-- The custom joiner is applied exactly once per step with more than one active branch — `joiner(e₁, …, eₙ)`, the
    operands being the chains of exactly the active branches in branch order — and not at all in a step with a
    single active branch. -/
theorem custom_joiner_applied (c : Ctx) (k : Nat) (s : StepCode) (j : Toks) (h : genStep c k = .ok s)
    (hj : c.joiner = some j) :
    (c.activeCount k > 1 → s.form = .call j) ∧ (¬ c.activeCount k > 1 → s.form ≠ .call j ∨ c.kind.isAsync = false) := by
  have := joiner_once_per_step c k s h
  constructor
  · intro hm; rw [this]; simp [hm, hj]
  · intro hm
    by_cases ha : c.kind.isAsync = true
    · left; rw [this]; simp [hm, ha]
    · right; simpa using ha

/-- the joiner application prints as `joiner ( e₁ , … , eₙ )`, once -/
theorem joiner_printed_once (s : StepCode) (j : Toks) (h : s.form = .call j) :
    ∃ pre post, printStep s = pre ++ j ++ [paren (commaSep (s.elems.map printElem))] ++ post := by
  refine ⟨(s.tbs.flatMap fun (b, arg) => [kw "let", (Var.j b).tok, pu '=', Var.tb.tok, paren [usizeLit arg], pu ';'])
      ++ s.defs.flatMap printCapDef ++ [kw "let", (Var.sr s.k).tok, pu '='],
    [pu ';'] ++ (match s.spawnJoin with
      | none => []
      | some ps =>
        [kw "let", (Var.sr s.k).tok, pu '=',
          paren (commaSep (ps.map fun p => projToks s.k p ++ call0 "join" ++ call0 "unwrap")), pu ';']), ?_⟩
  simp only [printStep, h, List.append_assoc]
  cases s.spawnJoin <;> rfl

/-- the operands are the active branches' chains in branch order, each handed over as `move || chain` exactly when
    `lazy_branches` is on (default: thread-spawning macros only) and more than one branch is active -/
theorem lazy_closures {c : Ctx} {names : List (Option String)} (ok : CtxOK c names) (σ : World) (parent : Option String)
    (k : Nat) (s : StepCode) (h : genStep c k = .ok s) :
    s.elems.map (fun e => (e.b, e.lazy)) = (c.activeIdx k).map fun b => (b, c.multi k && c.lazy) := by
  obtain ⟨_, _, he, _⟩ := genStep_shape ok σ parent k s h
  have := congrArg (List.map fun (t : Nat × Bool × ElemWrap × Var × List Member) => (t.1, t.2.1)) he
  simpa [Elem.sem, List.map_map, Function.comp_def] using this

theorem lazy_prints_move_closure (e : Elem) (h : e.lazy = true) (hw : e.wrap = .plain) :
    printElem e = [kw "move", pj '|', pu '|'] ++ e.chain := by
  simp [printElem, h, hw]

/-- defaults: lazy for the thread-spawning macros only, transposition for the sync try macros only -/
theorem option_defaults (p : Input) (kind : Kind) (c : Ctx) (h : mkCtx p kind = .ok c) :
    c.lazy = p.lazy.getD (kind.isSpawn && !kind.isAsync) ∧ c.transpose = p.transpose.getD (kind.isTry && !kind.isAsync) ∧
    c.joiner = p.joiner ∧ (kind.isAsync = true → c.fcp = some (p.fcp.getD defaultFcp)) := by
  unfold mkCtx at h
  split at h
  · cases h
  · split at h
    · cases h
    · split at h
      · cases h
      · split at h
        · cases h
        · cases h
          refine ⟨rfl, rfl, rfl, ?_⟩
          intro ha
          cases p.fcp <;> simp [ha]

/-- `transpose_results(false)`: in try macros every step but the last scrutinises the joiner's output with
    `match … { Ok(x) => …, Err(err) => Err(err) }` and continues with the payload; with transposition the success
    check over the active branches is used instead. -/
theorem transpose_false_steps (c : Ctx) (k : Nat) (htry : c.kind.isTry = true) :
    (c.transpose = false → ∃ rw, genLink c k = .matchOk rw (c.activePats k)) ∧
    (c.transpose = true → genLink c k = .failCheck (c.activePats k) (c.activeVars k) (c.failArms k)) := by
  constructor
  · intro h; simp [genLink, htry, h]
  · intro h; simp [genLink, htry, h]

theorem transpose_false_final (c : Ctx) (k : Nat) (htry : c.kind.isTry = true) (h : c.transpose = false) :
    (∃ ps vs, genFinal c k = .matchOkTuple ps vs) ∨ (∃ ps rs vs, genFinal c k = .matchOkTranspose ps rs vs) ∨
      genFinal c k = .matchOkSingle := by
  simp only [genFinal, h, htry, Bool.false_and, Bool.false_eq_true, if_false, if_true]
  by_cases hn : c.n > 1
  · simp only [hn, if_true]
    by_cases he : (c.inactiveVars k).isEmpty
    · left; simp [he]
    · right; left; simp [he]
  · right; right; simp [hn]

/-- the `Future<Output = T>` path under the configured futures crate -/
def futureOf (fcp : Toks) : Toks :=
  fcp ++ pathSep ++ [kw "future"] ++ pathSep ++ [kw "Future", pu '<', kw "Output", pu '=', kw "T", pu '>']

/-- `futures_crate_path(p)`: every futures item of the async frame comes from `p` — the `use` line, the joiner
    macros (`joiner_once_per_step`) and both `Future` bounds of the `__spawn_tokio` helper print the same path. -/
theorem fcp_everywhere (fcp : Toks) :
    useFutures fcp = [kw "use"] ++ fcp ++ pathSep ++
      [brace [kw "FutureExt", pu ',', kw "TryFutureExt", pu ',', kw "StreamExt", pu ',', kw "TryStreamExt"], pu ';'] ∧
    fnSpawnTokio fcp =
      [kw "fn", Var.spawnTokio.tok, pu '<', kw "T", pu ',', kw "F", pu '>', paren [kw "__future", pu ':', kw "F"],
        pj '-', pu '>', kw "impl"] ++ futureOf fcp ++ [kw "where", kw "F", pu ':'] ++ futureOf fcp ++
      [pu '+', kw "Send", pu '+', pj '\'', kw "static"] ++ [pu ',', kw "T", pu ':', kw "Send"] ++
      [pu '+', pj '\'', kw "static", pu ','] ++
      [brace (pathSep ++ [kw "tokio"] ++ pathSep ++ [kw "spawn", paren [kw "__future"], pu '.', kw "map",
        paren [pu '|', Var.v.tok, pu '|', Var.v.tok, pu '.', kw "unwrap_or_else",
          paren [pu '|', kw "err", pu '|', kw "panic", pu '!',
            paren [.lit "\"tokio JoinHandle failed: {:#?}\"", pu ',', kw "err"]]]])] := by
  constructor
  · simp [useFutures, List.append_assoc]
  · simp [fnSpawnTokio, futureOf, List.append_assoc]

end JoinModel.Props.C16
