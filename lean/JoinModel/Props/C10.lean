/-
  C10 — every user expression runs exactly once; values move, never copy.
  In the reference loop every reached atom (block capture, chain of an active branch, handler definition, handler
  call) is evaluated exactly once per step it belongs to — the loop is a fold over the active branches — and the
  generated code has exactly these events (`generated_eq_reference`).  "Nothing dropped from or duplicated in the
  expansion" at token level, moves and drops: K1 with unique operand markers (each must occur exactly once in the
  real output), K2 event multisets; rustc's move semantics are outside Lean (partial).
-/
import JoinModel.Props.Common
import JoinModel.Templates
import JoinModel.Lemmas.TokCount
import JoinModel.Lemmas.ParseInit
import JoinModel.Lemmas.PrintCount
import JoinModel.Props.C17
namespace JoinModel.Props.C10
open JoinModel JoinModel.Props

/-- the block captures of a step are pairwise distinct atoms, each evaluated once -/
theorem captures_once (sc : SpecCfg) (k : Nat) (vis : List (String × Value)) (capss : List (List Value))
    (h : (specCapsAll sc k vis (sc.active k)).res = .ok capss) :
    (specCapsAll sc k vis (sc.active k)).trace.Nodup := by
  rw [specCapsAll_trace_ok sc k vis _ capss h]
  have hact := active_nodup sc k
  generalize sc.active k = act at hact
  induction act with
  | nil => simp
  | cons b bs ih =>
    have hb := List.nodup_cons.mp hact
    simp only [List.flatMap_cons]
    refine List.nodup_append.mpr ⟨?_, ih hb.2, ?_⟩
    · -- positions (e, i) of one branch are distinct
      have hk : (capKeys (sc.acts b k)).Nodup := capDefsOf_keys_nodup 0 (sc.acts b k) 0
      generalize capKeys (sc.acts b k) = keys at hk
      induction keys with
      | nil => simp
      | cons ei rest ih2 =>
        have hk' := List.nodup_cons.mp hk
        simp only [List.map_cons, List.nodup_cons, List.mem_map, not_exists, not_and]
        refine ⟨?_, ih2 hk'.2⟩
        intro ei' hei' heq
        simp only [MEv.ev.injEq, Ev.cap.injEq, true_and, and_true] at heq
        exact hk'.1 (by rw [← Prod.ext_iff.mpr heq]; exact hei')
    · intro x hx y hy hxy
      subst hxy
      obtain ⟨ei, _, rfl⟩ := List.mem_map.mp hx
      obtain ⟨b', hb', hy'⟩ := List.mem_flatMap.mp hy
      obtain ⟨ei', _, heq⟩ := List.mem_map.mp hy'
      simp only [MEv.ev.injEq, Ev.cap.injEq] at heq
      exact hb.1 (heq.1 ▸ hb')

/-- in a step that returns, every active branch's chain ran exactly once: one `(branch, step, value)` entry each -/
theorem chains_once (sc : SpecCfg) (k : Nat) (vals : List (Option Value)) (vis : List (String × Value))
    (caps : List (List Value)) (hl : (sc.active k).length = caps.length) (news : List Value)
    (h : (specChains sc k vals vis (sc.active k) caps).res = .ok news) :
    (chainEnds (specChains sc k vals vis (sc.active k) caps).trace).map (fun e => e.1) = sc.active k ∧
    (sc.active k).Nodup := by
  refine ⟨?_, active_nodup sc k⟩
  rw [specChains_ends sc k vals vis _ caps hl news h]
  have hnl := specChains_length _ _ _ _ _ _ hl _ h
  simp only [List.map_map]
  have : ((fun (e : Nat × Nat × Value) => e.1) ∘ fun (bv : Nat × Value) => (bv.1, k, bv.2)) = Prod.fst := by
    funext bv; rfl
  rw [this, List.map_fst_zip]
  omega

/-- the handler is defined once (before the steps) and called at most once (after them): Props/C13 `call_trace` -/
theorem handler_def_once (σ : World) (p : Input) :
    (handlerDefOf σ p).trace = (match p.handler with | some _ => [.ev .handlerDef] | none => []) := by
  unfold handlerDefOf
  cases p.handler <;> simp [M.ret, M.tell, M.andThen, M.lift]

/-- the inspect helper calls its callback once with a reference and returns the value: the body of the emitted
    `fn __inspect<I>(__h: impl Fn(&I) -> (), __v: I) -> I` is `{ __h(&__v); __v }` -/
theorem inspect_helper_body :
    Templates.fnInspect.getLast? = some (brace [Var.h.tok, paren [pu '&', Var.v.tok], pu ';', Var.v.tok]) := by
  simp [Templates.fnInspect, brace, paren, pu]

/-! ### nothing dropped, nothing duplicated: one action at token level
    (the counting functions `cntToks`, `litCount`, `holesOf`, `sumList` and the proofs are in Lemmas/TokCount.lean) -/

/-- **Every emission template uses each of its operands exactly once** (table theorem over the templates observed from
    the running `ToTokens` implementations): the holes of the template for `n` operands are `0, …, n-1`. -/
theorem templates_linear :
    ∀ row ∈ Tables.emit, ∀ t, row.2.2 = some t → holesOf t = List.range row.2.1 := templates_linear_tbl

/-- **The method call of an operator contains each operand's tokens exactly once**, and nothing else a user could have
    written: for every constructor, every operand list and every identifier `s` that is not a template word. -/
theorem emit_conserves_tokens (s : String) (hs : UserIdent s) (c : Comb) (ops : List Toks) (r : Toks)
    (h : emitTokens c ops = .ok r) : cntToks s r = sumList (ops.map (cntToks s)) := emit_conserves s hs c ops r h

/-- hoisting a member's block operands moves their tokens into the definitions and leaves a generated name behind:
    no user token is lost or duplicated -/
theorem hoist_conserves_tokens (s : String) (hs : ∀ b e i, (Var.ew b e i).render ≠ s) (b e : Nat) (m : Member) :
    sumList ((hoist b e m).1.map fun d => cntToks s d.toks) + sumList ((hoist b e m).2.map (cntToks s)) =
      sumList (m.ops.map fun o => cntToks s o.toks) := hoist_conserves s hs b e m

/-! ### nothing dropped, nothing duplicated: the whole program -/

/-- **Every user token of every operand of the program occurs exactly once in the generated steps** — in a hoisted
    definition `let __ew… = {…};` or in a chain expression — for every program the generator accepts, every macro kind,
    any number of branches, steps, wrappers (`>>>`/`<<<`, closed explicitly or by the end of the step) and block
    operands.  `s` is any identifier that is not a word the generator writes itself (`Marker`) nor one of the program's
    `let` names; `stepsCount` adds up the occurrences of `s` in the definitions and chains of all steps, `cntProgram`
    those in the operands of all members (a `>>>` member's placeholder closure and a `<<<` member carry none).
    `InitialOnlyFirst`: the initial value stands only in front of a branch (what the parser builds:
    `accepted_conserves_tokens`). -/
theorem gen_conserves_tokens (s : String) (hm : Marker s) (p : Input) (kind : Kind) (code : Code)
    (h : gen p kind = .ok code) (hinit : InitialOnlyFirst p)
    (hnames : ∀ b ∈ p.branches, ∀ pt, b.pat = some pt → pt.ident ≠ s) :
    stepsCount s code.steps = cntProgram s p ∧ code.handlerDef = p.handler.map (·.2) := by
  refine ⟨gen_count hm p kind code h hinit hnames, ?_⟩
  unfold gen at h
  repeat' split at h
  all_goals first | (cases h; rfl) | cases h

/-- …and from the tokens the caller wrote: whatever the parser accepts (any behaviour of syn) and the generator expands. -/
theorem accepted_conserves_tokens (o : Oracle) (toks : Toks) (s : String) (hm : Marker s) (p : Input) (kind : Kind)
    (code : Code) (hparse : parseMacroInput o toks = .ok p) (h : gen p kind = .ok code)
    (hnames : ∀ b ∈ p.branches, ∀ pt, b.pat = some pt → pt.ident ≠ s) :
    stepsCount s code.steps = cntProgram s p :=
  (gen_conserves_tokens s hm p kind code h (parse_initial_only_first o toks p hparse) hnames).1


/-- Non-vacuity of `Marker`: `user_marker` is no template word, none of the generator's own words, and no internal name
    (those start with `__`, Props/C17). -/
theorem marker_example : Marker "user_marker" := by
  refine ⟨by decide, ?_, by decide, by decide, by decide⟩
  intro v hv heq
  obtain ⟨rest, hr⟩ := C17.internal_starts_with_underscores v hv
  rw [heq] at hr
  simp at hr

/-- …and of the conclusion: `a |> user_marker, { user_marker } ~=> >>> |> user_marker` keeps its three occurrences (one of
    them hoisted, one inside a wrapper closed by the end of its step). -/
example :
    let um : Toks := [.ident "user_marker"]
    let p : Input := { branches := [⟨none, [⟨.initial, false, .none, [⟨.expr, [.ident "a"]⟩]⟩, ⟨.map, false, .none, [⟨.expr, um⟩]⟩]⟩,
      ⟨none, [⟨.initial, false, .none, [⟨.block, [brace um]⟩]⟩, ⟨.andThen, true, .wrap, [⟨.expr, Tables.wrapperPlaceholder⟩]⟩,
              ⟨.map, false, .none, [⟨.expr, um⟩]⟩]⟩] }
    cntProgram "user_marker" p = 3 ∧
      (match gen p ⟨false, false, false⟩ with | .ok code => stepsCount "user_marker" code.steps | .error _ => 0) = 3 := by
  decide

/-- **…and exactly once in the emitted token stream.**  `printCode` is the printer that K1 compares token for token with the real
    expansion: the occurrences of a user identifier `s` in the whole expansion are its occurrences in the operands of the
    program plus those in the handler — nothing dropped, nothing duplicated, nothing of the macro's own helper items,
    names, keywords, patterns or paths counted (`PMarker`: `s` is none of the ≈50 identifiers the templates and the
    printer write themselves; `OtherTokensFree`: the `let` patterns, the joiner and the futures path do not mention `s`,
    the occurrences counted are those of the operands). -/
theorem expansion_conserves_tokens (s : String) (hm : PMarker s) (p : Input) (kind : Kind) (code : Code)
    (h : gen p kind = .ok code) (hinit : InitialOnlyFirst p) (ho : OtherTokensFree s p) :
    cntToks s (printCode code) = cntProgram s p + cntToks s ((p.handler.map (·.2)).getD []) :=
  expansion_count hm p kind code h hinit ho

/-- the same from the caller's tokens -/
theorem accepted_expansion_conserves_tokens (o : Oracle) (toks : Toks) (s : String) (hm : PMarker s) (p : Input)
    (kind : Kind) (code : Code) (hparse : parseMacroInput o toks = .ok p) (h : gen p kind = .ok code)
    (ho : OtherTokensFree s p) :
    cntToks s (printCode code) = cntProgram s p + cntToks s ((p.handler.map (·.2)).getD []) :=
  expansion_count hm p kind code h (parse_initial_only_first o toks p hparse) ho

/-- Non-vacuity of `PMarker` -/
theorem pmarker_example : PMarker "user_marker" :=
  { toMarker := marker_example, words := (by decide), inspectFn := (by decide), tbFn := (by decide) }

/-- …and of the conclusion, on printed tokens: the program of the example above under `join!` and under
    `try_join_async_spawn!` with a handler that mentions the marker once. -/
example :
    let um : Toks := [.ident "user_marker"]
    let hd : Toks := [pu '|', .ident "x", pu '|', .ident "user_marker"]
    let bs : List Branch := [⟨none, [⟨.initial, false, .none, [⟨.expr, [.ident "a"]⟩]⟩, ⟨.map, false, .none, [⟨.expr, um⟩]⟩]⟩,
      ⟨none, [⟨.initial, false, .none, [⟨.block, [brace um]⟩]⟩, ⟨.andThen, true, .wrap, [⟨.expr, Tables.wrapperPlaceholder⟩]⟩,
              ⟨.map, false, .none, [⟨.expr, um⟩]⟩]⟩]
    (match gen { handler := some (.map, hd), branches := bs } ⟨true, true, true⟩ with
      | .ok code => cntToks "user_marker" (printCode code) | .error _ => 0) = 4 ∧
    (match gen { branches := bs } ⟨false, false, false⟩ with
      | .ok code => cntToks "user_marker" (printCode code) | .error _ => 0) = 3 := by
  decide +kernel

/-- Non-vacuity of `UserIdent`: an identifier such as `user_marker` never occurs among the templates' own tokens, whereas
    `map` does (the template of `|>`): the hypothesis of `emit_conserves_tokens` holds for the former only. -/
example : UserIdent "user_marker" := by decide
example : ¬ UserIdent "map" := by decide

/-- …and a concrete instance of the conclusion: `|> user_marker(user_marker)` keeps both occurrences. -/
example : (match emitTokens .map [[.ident "user_marker", paren [.ident "user_marker"]]] with
    | .ok r => cntToks "user_marker" r
    | .error _ => 0) = 2 := by decide

end JoinModel.Props.C10
