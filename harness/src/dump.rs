//! Canonical dump of the *real* parser's result (`JoinInputDefault`) through its public API.
//!
//! STRUCT := OPTS " ;; " HANDLER ( " ;; " BRANCH )*
//! OPTS   := "O" ( " ,, " name " :: " toks )*          name in fcp | joiner | transpose | lazy
//! HANDLER:= "H ,, none" | "H ,, " kind " :: " toks      kind in map | then | and_then
//! BRANCH := "B" [ " ,, pat :: " pat-toks " :: " ident-toks ] ( " ,, " MEMBER )*
//! MEMBER := "M " ctor " " ("I"|"D") " " ("W"|"U"|"N") ( " ,, X " ("B"|"E"|"T") " :: " toks )*
use crate::canon::canon;
use join_impl::chain::expr::{ActionExpr, ErrExpr, InitialExpr, ProcessExpr};
use join_impl::chain::group::{ApplicationType, ExprGroup, MoveType};
use join_impl::chain::Chain;
use join_impl::handler::Handler;
use join_impl::JoinInputDefault;
use quote::ToTokens;
use syn::{Expr, Type};

/// A block operand is a `{ … }` block expression — syn's own classification, independent of how the code under test
/// classifies it (a brace-delimited macro call, an `unsafe { }` or `async { }` block, a closure … are not).
fn is_block(e: &Expr) -> bool {
    matches!(e, Expr::Block(_))
}

fn expr_op(e: &Expr) -> String {
    format!(
        "X {} :: {}",
        if is_block(e) { "B" } else { "E" },
        canon(e.to_token_stream())
    )
}

fn type_op(t: &Type) -> String {
    format!("X T :: {}", canon(t.to_token_stream()))
}

pub fn ctor_and_ops(e: &ActionExpr) -> (&'static str, Vec<String>) {
    match e {
        ActionExpr::Initial(InitialExpr::Single([e])) => ("Initial", vec![expr_op(e)]),
        ActionExpr::Err(ErrExpr::Or([e])) => ("Or", vec![expr_op(e)]),
        ActionExpr::Err(ErrExpr::OrElse([e])) => ("OrElse", vec![expr_op(e)]),
        ActionExpr::Err(ErrExpr::MapErr([e])) => ("MapErr", vec![expr_op(e)]),
        ActionExpr::Process(p) => match p {
            ProcessExpr::Map([e]) => ("Map", vec![expr_op(e)]),
            ProcessExpr::Then([e]) => ("Then", vec![expr_op(e)]),
            ProcessExpr::AndThen([e]) => ("AndThen", vec![expr_op(e)]),
            ProcessExpr::Filter([e]) => ("Filter", vec![expr_op(e)]),
            ProcessExpr::FindMap([e]) => ("FindMap", vec![expr_op(e)]),
            ProcessExpr::Flatten => ("Flatten", vec![]),
            ProcessExpr::Inspect([e]) => ("Inspect", vec![expr_op(e)]),
            ProcessExpr::Dot([e]) => ("Dot", vec![expr_op(e)]),
            ProcessExpr::Chain([e]) => ("Chain", vec![expr_op(e)]),
            ProcessExpr::Collect(None) => ("Collect", vec![]),
            ProcessExpr::Collect(Some([t])) => ("Collect", vec![type_op(t)]),
            ProcessExpr::Enumerate => ("Enumerate", vec![]),
            ProcessExpr::FilterMap([e]) => ("FilterMap", vec![expr_op(e)]),
            ProcessExpr::Find([e]) => ("Find", vec![expr_op(e)]),
            ProcessExpr::Fold([a, b]) => ("Fold", vec![expr_op(a), expr_op(b)]),
            ProcessExpr::Partition([e]) => ("Partition", vec![expr_op(e)]),
            ProcessExpr::TryFold([a, b]) => ("TryFold", vec![expr_op(a), expr_op(b)]),
            ProcessExpr::Unzip(None) => ("Unzip", vec![]),
            ProcessExpr::Unzip(Some([a, b, c, d])) => {
                ("Unzip", vec![type_op(a), type_op(b), type_op(c), type_op(d)])
            }
            ProcessExpr::Zip([e]) => ("Zip", vec![expr_op(e)]),
            ProcessExpr::UNWRAP => ("UNWRAP", vec![]),
        },
    }
}

pub fn member(m: &ExprGroup<ActionExpr>) -> String {
    let (ctor, ops) = ctor_and_ops(m.expr());
    let mut s = format!(
        "M {} {} {}",
        ctor,
        match m.application_type() {
            ApplicationType::Instant => "I",
            ApplicationType::Deferred => "D",
        },
        match m.move_type() {
            MoveType::Wrap => "W",
            MoveType::Unwrap => "U",
            MoveType::None => "N",
        }
    );
    for o in ops {
        s.push_str(" ,, ");
        s.push_str(&o);
    }
    s
}

pub fn dump(j: &JoinInputDefault) -> String {
    let mut parts: Vec<String> = Vec::new();
    let mut o = String::from("O");
    if let Some(p) = &j.futures_crate_path {
        o.push_str(&format!(" ,, fcp :: {}", canon(p.to_token_stream())));
    }
    if let Some(p) = &j.custom_joiner {
        o.push_str(&format!(" ,, joiner :: {}", canon(p.clone())));
    }
    if let Some(b) = j.transpose_results {
        o.push_str(&format!(" ,, transpose :: {}", if b { "t" } else { "f" }));
    }
    if let Some(b) = j.lazy_branches {
        o.push_str(&format!(" ,, lazy :: {}", if b { "t" } else { "f" }));
    }
    parts.push(o);
    parts.push(match &j.handler {
        None => "H ,, none".to_string(),
        Some(Handler::Map(e)) => format!("H ,, map :: {}", canon(e.to_token_stream())),
        Some(Handler::Then(e)) => format!("H ,, then :: {}", canon(e.to_token_stream())),
        Some(Handler::AndThen(e)) => format!("H ,, and_then :: {}", canon(e.to_token_stream())),
    });
    for b in &j.branches {
        let mut s = String::from("B");
        if let Some(p) = b.id() {
            s.push_str(&format!(
                " ,, pat :: {} :: {}",
                canon(p.to_token_stream()),
                canon(p.ident.to_token_stream())
            ));
        }
        for m in b.members() {
            s.push_str(" ,, ");
            s.push_str(&member(m));
        }
        parts.push(s);
    }
    parts.join(" ;; ")
}
