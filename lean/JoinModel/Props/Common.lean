/-
  Shared vocabulary of the property theorems about run-time behaviour (sequential and thread-spawning
  macros): the reference loop of a macro invocation, and the bridge from the generated code to it
  (`sync_refines`).
-/
import JoinModel.Refinement
import JoinModel.Lemmas.OrderFacts
import JoinModel.Lemmas.ParseHead
namespace JoinModel.Props
open JoinModel

/-- reference configuration of the invocation `kind!{ p }` evaluated in world `σ` on thread `parent` -/
def cfgFor (σ : World) (parent : Option String) (p : Input) (kind : Kind) : SpecCfg :=
  ⟨σ, kind, p.branches.map (fun b => b.pat.map (·.ident)), parent, p.branches.map fun b => splitSteps b.members⟩

/-- the step loop of the invocation, from step 0 -/
def loopOf (σ : World) (parent : Option String) (p : Input) (kind : Kind) : M Fin :=
  specLoop (cfgFor σ parent p kind) ((cfgFor σ parent p kind).maxDepth - 1) 0
    (List.replicate (cfgFor σ parent p kind).n none)

/-- evaluating the handler expression `let __h = H;` -/
def handlerDefOf (σ : World) (p : Input) : M Unit :=
  match p.handler with
  | some _ => (M.tell [.ev .handlerDef]).andThen fun _ => M.lift σ.handlerDef.toRes
  | none => M.ret ()

theorem specRun_eq (σ : World) (parent : Option String) (p : Input) (kind : Kind) :
    specRun σ parent p kind =
      (handlerDefOf σ p).andThen fun _ =>
      (loopOf σ parent p kind).andThen fun f => specHandle (cfgFor σ parent p kind) (p.handler.map Prod.fst) f := rfl

/-- The generated code behaves exactly like the reference semantics (events and result), for every program,
    world and calling thread: the bridge every property theorem crosses. -/
theorem generated_eq_reference (σ : World) (parent : Option String) (p : Input) (kind : Kind) (code : Code)
    (hs : Supported p kind) (hgen : gen p kind = .ok code) :
    evalCode σ parent code = specRun σ parent p kind := sync_refines σ parent p kind code hs hgen

/-- What the refinement asks of an invocation *beyond* what the parser itself guarantees: no `custom_joiner`, no
    `lazy_branches`, default transposition, pairwise distinct `let` names (rustc rejects a repeated binding), and a macro
    kind other than the async try ones (which have `async_try_refines`). -/
structure PlainInvocation (p : Input) (kind : Kind) : Prop where
  noJoiner : p.joiner = none
  noLazy : p.lazy = none
  namesNodup : (p.branches.filterMap fun b => b.pat.map (·.ident)).Nodup
  asyncNotTry : kind.isAsync = true → kind.isTry = false
  transposeDefault : p.transpose ≠ some false

/-- every program the parser model accepts — for every behaviour of syn — is one the refinement speaks about -/
theorem accepted_supported (o : Oracle) (toks : Toks) (p : Input) (kind : Kind)
    (hparse : parseMacroInput o toks = .ok p) (hd : PlainInvocation p kind) : Supported p kind :=
  { noJoiner := hd.noJoiner, noLazy := hd.noLazy, namesNodup := hd.namesNodup, asyncNotTry := hd.asyncNotTry,
    transposeDefault := hd.transposeDefault, firstInitial := parse_first_initial o toks p hparse }

/-- **From the macro's tokens to its behaviour.**  Parser, generator and evaluation of the generated code composed:
    whatever token list the parser accepts (any oracle), the code generated from what it parsed behaves like the
    reference semantics of what it parsed. -/
theorem accepted_eq_reference (o : Oracle) (toks : Toks) (σ : World) (parent : Option String) (p : Input) (kind : Kind)
    (code : Code) (hparse : parseMacroInput o toks = .ok p) (hd : PlainInvocation p kind) (hgen : gen p kind = .ok code) :
    evalCode σ parent code = specRun σ parent p kind :=
  sync_refines σ parent p kind code (accepted_supported o toks p kind hparse hd) hgen

/-- the initial state satisfies the try-loop invariant -/
theorem allSucc_init (n : Nat) : AllSucc (List.replicate n none) := by
  intro i v h
  rw [List.getElem?_replicate] at h
  split at h <;> simp at h

/-- without a handler the trace of a run is the trace of the loop -/
theorem run_trace_no_handler (σ : World) (parent : Option String) (p : Input) (kind : Kind) (hh : p.handler = none) :
    (specRun σ parent p kind).trace = (loopOf σ parent p kind).trace ∧
    (specRun σ parent p kind).res =
      ((loopOf σ parent p kind).andThen fun f => specHandle (cfgFor σ parent p kind) none f).res := by
  rw [specRun_eq]
  simp only [handlerDefOf, hh, Option.map_none, M.ret_andThen]
  refine ⟨?_, trivial⟩
  cases hr : (loopOf σ parent p kind).res with
  | ok f =>
    rw [(M.andThen_trace_ok hr).1]
    cases f <;> simp [specHandle, M.ret]
  | panic s => exact M.andThen_trace_notok (by intro a; rw [hr]; simp)
  | stuck => exact M.andThen_trace_notok (by intro a; rw [hr]; simp)

end JoinModel.Props
