//! Answers of the *running* code to the questions the table extractor answers from the source text.
use crate::canon::canon;
use crate::dump::ctor_and_ops;
use join_impl::chain::expr::{ActionExpr, ErrExpr, InitialExpr, InnerExpr, ProcessExpr};
use join_impl::chain::group::Combinator;
use join_impl::join::name_constructors::*;
use join_impl::join::parse::{DEFAULT_GROUP_DETERMINERS, DEFERRED_DETERMINER, WRAPPER_DETERMINER};
use join_impl::JoinInputDefault;
use proc_macro2::{Delimiter, Group, Ident, Punct, Spacing, Span, TokenStream, TokenTree};
use quote::ToTokens;
use std::panic::{catch_unwind, AssertUnwindSafe};
use syn::parse::Parser;
use syn::{parse_quote, Expr, Type};

pub const COMBINATORS: &[(Combinator, &str)] = &[
    (Combinator::Map, "Map"),
    (Combinator::Dot, "Dot"),
    (Combinator::Filter, "Filter"),
    (Combinator::Inspect, "Inspect"),
    (Combinator::Then, "Then"),
    (Combinator::AndThen, "AndThen"),
    (Combinator::Or, "Or"),
    (Combinator::OrElse, "OrElse"),
    (Combinator::MapErr, "MapErr"),
    (Combinator::Initial, "Initial"),
    (Combinator::Chain, "Chain"),
    (Combinator::Flatten, "Flatten"),
    (Combinator::Collect, "Collect"),
    (Combinator::Enumerate, "Enumerate"),
    (Combinator::Find, "Find"),
    (Combinator::Fold, "Fold"),
    (Combinator::TryFold, "TryFold"),
    (Combinator::Unzip, "Unzip"),
    (Combinator::Zip, "Zip"),
    (Combinator::Partition, "Partition"),
    (Combinator::FilterMap, "FilterMap"),
    (Combinator::FindMap, "FindMap"),
    (Combinator::UNWRAP, "UNWRAP"),
];

fn comb_name(c: Option<Combinator>) -> String {
    match c {
        None => "none".into(),
        Some(c) => format!("{:?}", c),
    }
}

const ALPHA: &[&str] = &[
    "|", ">", "<", "=", "-", ".", "!", "@", "?", "^", "&", "~", ",", "n", "[]", "x",
];

fn mk(sym: &str, joint: bool) -> TokenTree {
    match sym {
        "n" | "x" => TokenTree::Ident(Ident::new(sym, Span::call_site())),
        "[]" => TokenTree::Group(Group::new(Delimiter::Bracket, TokenStream::new())),
        s => TokenTree::Punct(Punct::new(
            s.chars().next().unwrap(),
            if joint { Spacing::Joint } else { Spacing::Alone },
        )),
    }
}

fn first_match(ts: TokenStream) -> String {
    let f = |input: syn::parse::ParseStream| -> syn::Result<String> {
        let idx = DEFAULT_GROUP_DETERMINERS
            .iter()
            .position(|d| d.check_input(input));
        let d = DEFERRED_DETERMINER.check_input(input);
        let w = WRAPPER_DETERMINER.check_input(input);
        // drain
        let _: TokenStream = input.parse()?;
        Ok(format!(
            "{} {} {}",
            idx.map(|i| i.to_string()).unwrap_or_else(|| "none".into()),
            if d { 1 } else { 0 },
            if w { 1 } else { 0 }
        ))
    };
    f.parse2(ts).unwrap()
}

fn probes(out: &mut Vec<String>) {
    // all sequences of length 1..=3 over ALPHA and length 4 starting with `?`, in joint and alone spacing,
    // each followed by the identifier `x` so that the last punct may be Joint as well.
    let n = ALPHA.len();
    let mut seqs: Vec<Vec<usize>> = Vec::new();
    for a in 0..n {
        seqs.push(vec![a]);
        for b in 0..n {
            seqs.push(vec![a, b]);
            for c in 0..n {
                seqs.push(vec![a, b, c]);
                if ALPHA[a] == "?" {
                    for d in 0..n {
                        seqs.push(vec![a, b, c, d]);
                    }
                }
            }
        }
    }
    for s in seqs {
        for &joint in &[true, false] {
            let mut ts = TokenStream::new();
            for &i in &s {
                mk(ALPHA[i], joint).to_tokens(&mut ts);
            }
            mk("x", false).to_tokens(&mut ts);
            out.push(format!("PROBE\t{}\t{}", canon(ts.clone()), first_match(ts)));
        }
    }
}

fn emit(name: &str, e: ActionExpr) -> String {
    let r = catch_unwind(AssertUnwindSafe(|| match &e {
        ActionExpr::Process(p) => p.to_token_stream(),
        ActionExpr::Err(p) => p.to_token_stream(),
        ActionExpr::Initial(p) => p.to_token_stream(),
    }));
    let (repl, inner) = match &e {
        ActionExpr::Process(p) => (p.is_replaceable(), p.inner_exprs().map(|x| x.len())),
        ActionExpr::Err(p) => (p.is_replaceable(), p.inner_exprs().map(|x| x.len())),
        ActionExpr::Initial(p) => (p.is_replaceable(), p.inner_exprs().map(|x| x.len())),
    };
    let (ctor, ops) = ctor_and_ops(&e);
    assert_eq!(ctor, name);
    format!(
        "EMIT\t{}\t{}\t{}\t{}\t{}",
        name,
        ops.len(),
        match r {
            Ok(ts) => canon(ts),
            Err(_) => "panic".into(),
        },
        if repl { 1 } else { 0 },
        inner.map(|n| n.to_string()).unwrap_or_else(|| "none".into())
    )
}

pub fn print_tables() {
    let mut out: Vec<String> = Vec::new();
    for (i, d) in DEFAULT_GROUP_DETERMINERS.iter().enumerate() {
        out.push(format!("DET\t{}\t{}\t{}", i, comb_name(d.combinator()), d.len()));
    }
    out.push(format!(
        "DEFERRED\t{}\t{}",
        comb_name(DEFERRED_DETERMINER.combinator()),
        DEFERRED_DETERMINER.len()
    ));
    out.push(format!(
        "WRAPPERDET\t{}\t{}",
        comb_name(WRAPPER_DETERMINER.combinator()),
        WRAPPER_DETERMINER.len()
    ));
    for (c, name) in COMBINATORS {
        assert_eq!(&format!("{:?}", c), name);
        out.push(format!(
            "COMB\t{}\t{}\t{}",
            name,
            if c.can_be_wrapper() { 1 } else { 0 },
            if c.is_err_expr() { 1 } else { 0 }
        ));
    }
    let m0: Expr = parse_quote! { m0 };
    let m1: Expr = parse_quote! { m1 };
    let t = |s: &str| -> Type { syn::parse_str(s).unwrap() };
    use ProcessExpr as P;
    let pe = |p: ProcessExpr| ActionExpr::Process(p);
    let rows: Vec<(&str, ActionExpr)> = vec![
        ("Initial", ActionExpr::Initial(InitialExpr::Single([m0.clone()]))),
        ("Or", ActionExpr::Err(ErrExpr::Or([m0.clone()]))),
        ("OrElse", ActionExpr::Err(ErrExpr::OrElse([m0.clone()]))),
        ("MapErr", ActionExpr::Err(ErrExpr::MapErr([m0.clone()]))),
        ("Map", pe(P::Map([m0.clone()]))),
        ("Then", pe(P::Then([m0.clone()]))),
        ("AndThen", pe(P::AndThen([m0.clone()]))),
        ("Filter", pe(P::Filter([m0.clone()]))),
        ("FindMap", pe(P::FindMap([m0.clone()]))),
        ("Flatten", pe(P::Flatten)),
        ("Inspect", pe(P::Inspect([m0.clone()]))),
        ("Dot", pe(P::Dot([m0.clone()]))),
        ("Chain", pe(P::Chain([m0.clone()]))),
        ("Collect", pe(P::Collect(None))),
        ("Collect", pe(P::Collect(Some([t("m0")])))),
        ("Enumerate", pe(P::Enumerate)),
        ("FilterMap", pe(P::FilterMap([m0.clone()]))),
        ("Find", pe(P::Find([m0.clone()]))),
        ("Fold", pe(P::Fold([m0.clone(), m1.clone()]))),
        ("Partition", pe(P::Partition([m0.clone()]))),
        ("TryFold", pe(P::TryFold([m0.clone(), m1.clone()]))),
        ("Unzip", pe(P::Unzip(None))),
        ("Unzip", pe(P::Unzip(Some([t("m0"), t("m1"), t("m2"), t("m3")])))),
        ("Zip", pe(P::Zip([m0.clone()]))),
        ("UNWRAP", pe(P::UNWRAP)),
    ];
    for (n, e) in rows {
        out.push(emit(n, e));
    }
    for i in [0usize, 1, 2, 9, 10, 11, 12, 19, 20, 21, 99, 100, 101, 110, 111, 1234] {
        out.push(format!(
            "NAME\t{}\t{}\t{}\t{}\t{}",
            i,
            construct_var_name(i),
            construct_step_results_name(i),
            construct_result_name(i),
            construct_thread_builder_name(i)
        ));
    }
    for &(a, b, c) in &[(0usize, 0usize, 0usize), (1, 11, 0), (11, 1, 0), (1, 1, 10), (11, 10, 1), (2, 3, 4)] {
        out.push(format!("NAMEEW\t{}\t{}\t{}\t{}", a, b, c, construct_expr_wrapper_name(a, b, c)));
    }
    out.push(format!(
        "NAMEFIXED\t{}\t{}\t{}\t{}\t{}\t{}",
        construct_inspect_fn_name(),
        construct_spawn_tokio_fn_name(),
        construct_results_name(),
        construct_handler_name(),
        construct_internal_value_name(),
        construct_thread_builder_fn_name()
    ));
    // wrapper constructors as observed through the real parser: `x OP >>> <<<`
    for op in ["|>", "=>", "?>", "??", "?|>", "?@", "?|>@", "?&!>", "<=", "!>"] {
        let src = format!("x {} >>> <<<", op);
        let ts: TokenStream = src.parse().unwrap();
        let r = syn::parse2::<JoinInputDefault>(ts);
        out.push(format!(
            "WRAPCTOR\t{}\t{}",
            op,
            match r {
                Ok(j) => crate::dump::dump(&j),
                Err(e) => format!("err:{}", e),
            }
        ));
    }
    probes(&mut out);
    println!("{}", out.join("\n"));
}
