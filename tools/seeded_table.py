#!/usr/bin/env python3
"""Regenerates the table of DESIGN.md §0.6 from seeded/*/meta.json (fields `summary`, `needs`, `confirmed`, `detection`)."""
import json
import os
import re

ROOT = os.path.dirname(os.path.dirname(os.path.abspath(__file__)))


def first(s, n):
    s = re.sub(r"\s+", " ", s).strip()
    cut = s[:n]
    m = re.search(r"\. |\(i\.e|, i\.e|e\.g", cut)
    if m and m.start() > 40:
        cut = cut[:m.start()]
    return cut.replace("|", "\\|")


def main():
    rows = []
    for d in sorted(os.listdir(os.path.join(ROOT, "seeded"))):
        mp = os.path.join(ROOT, "seeded", d, "meta.json")
        if not os.path.exists(mp):
            continue
        m = json.load(open(mp))
        det = m.get("detection", {})
        dets = "; ".join("%s: VIOLATION, %s" % (k, "concrete input" if v.get("concrete_input") else "no-failing-input-found")
                         for k, v in sorted(det.items()) if v.get("rc") == 1) or "not run"
        rows.append("| %s | %s | %s | %s | %s |" % (d, first(m.get("summary", ""), 230), first(m.get("needs", ""), 200),
                                                    "yes" if m.get("confirmed", {}).get("ok") else "NO", dets))
    p = os.path.join(ROOT, "DESIGN.md")
    s = open(p).read()
    head = "| id | change (first sentence of the sub-agent's summary) | needs | confirmed (80 tests pass, demo fails with / passes without) | detected by |\n|---|---|---|---|---|\n"
    a = s.index(head) + len(head)
    b = s.index("\n\n", a)
    s = s[:a] + "\n".join(rows) + s[b:]
    with open(p + ".tmp", "w") as f:
        f.write(s)
    os.replace(p + ".tmp", p)
    print(len(rows), "rows")


if __name__ == "__main__":
    main()
