//! syn oracle of one macro input: everything the parser asks syn about this input, computed by syn itself.
//!
//! The parser model (lean/JoinModel/Parse.lean) takes these answers as its `Oracle` argument.  Entries, joined by " ;; ":
//!   E i k B|N [:: reprint]      the first k collected tokens of a unit starting at top-level position i parse as Expr
//!                               (B: it is `Expr::Block`); reprint = tokens of the parsed value when they differ
//!   T i k [:: reprint]          same list parses as Type
//!   L i k :: O                  same list is `Expr::Let` with a non-identifier pattern
//!   L i k :: I :: pat :: ident :: rhs :: B|N
//!   P i n|- [:: reprint]        `input.parse::<Expr>()` on the suffix starting at i consumes n trees (handler body)
//!   OP g n|-                    `content.parse::<Path>()` on the content of the group at top-level position g
//!   OB g t|f|-                  `content.parse::<LitBool>()` on the same
//! "collected tokens of a unit": `parse_until` drops a `~` whenever one is next at the start of a loop iteration,
//! so the list collected from position i is a function of the tokens alone (`collect_from`).
use crate::canon::canon;
use proc_macro2::{TokenStream, TokenTree};
use quote::ToTokens;
use std::collections::HashMap;
use syn::parse::Parser;
use syn::{Expr, Pat, Type};

fn is_tilde(t: &TokenTree) -> bool {
    matches!(t, TokenTree::Punct(p) if p.as_char() == '~')
}

/// tokens a unit starting at `i` collects if it never stops
pub fn collect_from(toks: &[TokenTree], i: usize) -> Vec<TokenTree> {
    let mut out = Vec::new();
    let mut pos = i;
    while pos < toks.len() {
        if is_tilde(&toks[pos]) {
            pos += 1;
            if pos >= toks.len() {
                break;
            }
        }
        out.push(toks[pos].clone());
        pos += 1;
    }
    out
}

fn stream(ts: &[TokenTree]) -> TokenStream {
    ts.iter().cloned().collect()
}

fn unspaced(s: &str) -> String {
    s.split(' ')
        .map(|w| if w.starts_with("p:") && w.ends_with('j') && w.len() == 4 { &w[..3] } else { w })
        .collect::<Vec<_>>()
        .join(" ")
}

pub fn oracle(ts: TokenStream) -> String {
    let toks: Vec<TokenTree> = ts.into_iter().collect();
    let n = toks.len();
    let mut out: Vec<String> = Vec::new();
    // answers are functions of the token list, so each distinct list is asked once
    let mut seen: HashMap<String, ()> = HashMap::new();
    for i in 0..n {
        let all = collect_from(&toks, i);
        for k in 1..=all.len() {
            let list = &all[..k];
            let key = canon(stream(list));
            if seen.insert(key.clone(), ()).is_some() {
                continue;
            }
            if let Ok(e) = syn::parse2::<Expr>(stream(list)) {
                let re = canon(e.to_token_stream());
                let mut s = format!("E {} {} {}", i, k, if matches!(e, Expr::Block(_)) { "B" } else { "N" });
                if unspaced(&re) != unspaced(&key) {
                    s.push_str(&format!(" :: {}", re));
                }
                out.push(s);
                if let Expr::Let(l) = &e {
                    match &l.pat {
                        Pat::Ident(p) => out.push(format!(
                            "L {} {} :: I :: {} :: {} :: {} :: {}",
                            i,
                            k,
                            canon(p.to_token_stream()),
                            p.ident,
                            canon(l.expr.to_token_stream()),
                            if matches!(*l.expr, Expr::Block(_)) { "B" } else { "N" }
                        )),
                        _ => out.push(format!("L {} {} :: O", i, k)),
                    }
                }
            }
            if let Ok(t) = syn::parse2::<Type>(stream(list)) {
                let re = canon(t.to_token_stream());
                let mut s = format!("T {} {}", i, k);
                if unspaced(&re) != unspaced(&key) {
                    s.push_str(&format!(" :: {}", re));
                }
                out.push(s);
            }
        }
    }
    // handler bodies
    for q in 0..n {
        let is_kw = matches!(&toks[q], TokenTree::Ident(id) if ["map", "then", "and_then"].contains(&id.to_string().as_str()));
        if !is_kw || q + 2 >= n + 0 {
            continue;
        }
        let eq = matches!(&toks[q + 1], TokenTree::Punct(p) if p.as_char() == '=');
        let gt = q + 2 < n && matches!(&toks[q + 2], TokenTree::Punct(p) if p.as_char() == '>');
        if !(eq && gt) {
            continue;
        }
        let i = q + 3;
        let suffix = &toks[i.min(n)..];
        let total = suffix.len();
        let parser = |input: syn::parse::ParseStream<'_>| -> syn::Result<(Expr, usize)> {
            let e: Expr = input.parse()?;
            let rest: TokenStream = input.parse()?;
            Ok((e, rest.into_iter().count()))
        };
        match parser.parse2(stream(suffix)) {
            Ok((e, rest)) => {
                let used = total - rest;
                let re = canon(e.to_token_stream());
                let src = canon(stream(&suffix[..used]));
                let mut s = format!("P {} {}", i, used);
                if unspaced(&re) != unspaced(&src) {
                    s.push_str(&format!(" :: {}", re));
                }
                out.push(s);
            }
            Err(_) => out.push(format!("P {} -", i)),
        }
    }
    // option arguments
    for g in 1..n {
        let kw = match &toks[g - 1] {
            TokenTree::Ident(id) => id.to_string(),
            _ => continue,
        };
        let content = match &toks[g] {
            TokenTree::Group(gr) if gr.delimiter() == proc_macro2::Delimiter::Parenthesis => gr.stream(),
            _ => continue,
        };
        let total = content.clone().into_iter().count();
        if kw == "futures_crate_path" {
            let parser = |input: syn::parse::ParseStream<'_>| -> syn::Result<usize> {
                let _p: syn::Path = input.parse()?;
                let rest: TokenStream = input.parse()?;
                Ok(rest.into_iter().count())
            };
            match parser.parse2(content) {
                Ok(rest) => out.push(format!("OP {} {}", g, total - rest)),
                Err(_) => out.push(format!("OP {} -", g)),
            }
        } else if kw == "transpose_results" || kw == "lazy_branches" {
            let parser = |input: syn::parse::ParseStream<'_>| -> syn::Result<bool> {
                let b: syn::LitBool = input.parse()?;
                let _rest: TokenStream = input.parse()?;
                Ok(b.value)
            };
            match parser.parse2(content) {
                Ok(b) => out.push(format!("OB {} {}", g, if b { "t" } else { "f" })),
                Err(_) => out.push(format!("OB {} -", g)),
            }
        }
    }
    if out.is_empty() {
        "-".to_string()
    } else {
        out.join(" ;; ")
    }
}
