/-
  C13 — handlers: map / and_then only on success, then always, exactly once.
  (The rejection of a *second* handler is a property of the parser: Props/C14-C15, `MultipleHandlers`.)
-/
import JoinModel.Props.Common
namespace JoinModel.Props.C13
open JoinModel JoinModel.Props

/-- the one handler call: one event, then the user's function on the values in branch order -/
def callOnce (sc : SpecCfg) (vs : List Value) : M Value :=
  (M.tell [.ev (.handlerCall vs)]).andThen fun _ => M.lift (sc.σ.handlerCall vs).toRes

/-- `then => f` (non-try macros): f is called exactly once with the raw values; its value is the macro's value. -/
theorem then_semantics (sc : SpecCfg) (vs : List Value) :
    specHandle sc (some .then_) (.vals vs) = callOnce sc vs := rfl

/-- `map => f` (try macros): on success f is called exactly once with the unwrapped values, result `Ok(f(..))`;
    on failure f is not called and the failing value is returned. -/
theorem map_semantics (sc : SpecCfg) (vs : List Value) (v : Value) :
    specHandle sc (some .map) (.vals vs) = (callOnce sc vs).andThen (fun r => M.ret (.succ r)) ∧
    specHandle sc (some .map) (.failed v) = M.ret v := ⟨rfl, rfl⟩

/-- `and_then => f` (try macros): on success the macro's value is f(..) itself; on failure f is not called. -/
theorem and_then_semantics (sc : SpecCfg) (vs : List Value) (v : Value) :
    specHandle sc (some .andThen) (.vals vs) = callOnce sc vs ∧
    specHandle sc (some .andThen) (.failed v) = M.ret v := ⟨rfl, rfl⟩

/-- exactly one call event, carrying the values in branch order -/
theorem call_trace (sc : SpecCfg) (vs : List Value) : (callOnce sc vs).trace = [.ev (.handlerCall vs)] := by
  simp only [callOnce, M.tell_andThen, M.pre, M.lift]
  rfl

/-- A handler of the wrong kind for the macro is rejected at expansion time, and only then. -/
theorem handler_kind_rejected (p : Input) (kind : Kind) :
    (gen p kind = .error .handlerNotTry ↔ (kind.isTry = false ∧ p.isMapOrAndThen = true)) ∧
    (gen p kind = .error .thenInTry ↔ (kind.isTry = true ∧ p.isThen = true)) := by
  have key : ∀ (e : GenErr), (e = .handlerNotTry ∨ e = .thenInTry) →
      (gen p kind = .error e ↔ mkCtx p kind = .error e) := by
    intro e he
    unfold gen
    cases hm : mkCtx p kind with
    | error e' => simp
    | ok c =>
      simp only
      split
      · rcases he with rfl | rfl <;> simp
      · cases hs : genSteps c (c.maxSteps - 1) 0 with
        | ok steps => simp
        | error e' =>
          simp only [Except.error.injEq, reduceCtorEq, iff_false]
          intro heq; subst heq
          obtain ⟨ce, hce⟩ := genSteps_err c _ _ _ hs
          rcases he with rfl | rfl <;> cases hce
  constructor
  · rw [key _ (Or.inl rfl)]
    unfold mkCtx
    by_cases h1 : (!kind.isTry && p.isMapOrAndThen) = true
    · simp only [h1, if_true, true_iff]
      simpa using h1
    · simp only [h1, Bool.false_eq_true, if_false]
      constructor
      · intro h
        split at h
        · cases h
        · split at h
          · cases h
          · split at h <;> cases h
      · intro h
        exact absurd (by simpa using h) h1
  · rw [key _ (Or.inr rfl)]
    unfold mkCtx
    by_cases h1 : (!kind.isTry && p.isMapOrAndThen) = true
    · simp only [h1, if_true]
      constructor
      · intro h; cases h
      · intro h
        simp only [Bool.and_eq_true, Bool.not_eq_true'] at h1
        rw [h.1] at h1; cases h1.1
    · simp only [h1, Bool.false_eq_true, if_false]
      by_cases h2 : (kind.isTry && p.isThen) = true
      · simp only [h2, if_true, true_iff]
        simpa using h2
      · simp only [h2, Bool.false_eq_true, if_false]
        constructor
        · intro h
          split at h
          · cases h
          · split at h <;> cases h
        · intro h
          exact absurd (by simpa using h) h2

end JoinModel.Props.C13
