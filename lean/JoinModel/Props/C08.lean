/-
  C08 — thread-spawning macros: one live, named thread per active branch; and the thread half of C03
  (step barrier under every interleaving).
-/
import JoinModel.Lemmas.Lin
import JoinModel.Props.Common
namespace JoinModel.Props.C08
open JoinModel JoinModel.Props

/-- the threads a forked step starts: (branch, step), thread name, body events -/
def stepThreads (sc : SpecCfg) (k : Nat) (vals : List (Option Value)) (vis : List (String × Value))
    (bcs : List (Nat × List Value)) : List (Tid × String × List Ev) :=
  bcs.map fun bc => ((bc.1, k), threadName sc.parent bc.1,
    chainEvents bc.1 k (sc.σ.chain bc.1 k (specPrev sc vals bc.1 k) bc.2 vis))

/-- A step with more than one active branch in a thread-spawning macro forks exactly one thread per active
    branch, in branch order, the thread of branch b named `<caller>_join_<b>` (`join_<b>` for an unnamed caller),
    before joining any of them. -/
theorem fork_count_names (sc : SpecCfg) (k : Nat) (vals : List (Option Value)) (vis : List (String × Value))
    (bcs : List (Nat × List Value)) :
    ∃ joins, (specChainsFork sc k vals vis bcs).trace = forksOf (stepThreads sc k vals vis bcs) ++ joins ∧
      ∀ e ∈ joins, ∃ b, e = .join b k := by
  refine ⟨(specJoins k (bcs.map fun bc => (bc.1, sc.σ.chain bc.1 k (specPrev sc vals bc.1 k) bc.2 vis))).trace, ?_, ?_⟩
  · simp only [specChainsFork, M.tell_andThen, M.pre, forksOf, stepThreads, List.map_map]
    rfl
  · generalize (bcs.map fun bc => (bc.1, sc.σ.chain bc.1 k (specPrev sc vals bc.1 k) bc.2 vis)) = outs
    induction outs with
    | nil => simp [specJoins, M.ret]
    | cons bo rest ih =>
      obtain ⟨b, o⟩ := bo
      intro e he
      simp only [specJoins, M.tell_andThen, M.pre, List.singleton_append, List.mem_cons] at he
      rcases he with rfl | he
      · exact ⟨b, rfl⟩
      · cases ho : o.res with
        | ok v =>
          simp only [ho] at he
          cases hres : (specJoins k rest).res with
          | ok vs =>
            rw [(M.andThen_trace_ok (f := fun vs => M.ret (v :: vs)) hres).1] at he
            simp only [M.ret, List.append_nil] at he
            exact ih e he
          | panic s => rw [M.andThen_trace_notok (by intro a; rw [hres]; simp)] at he; exact ih e he
          | stuck => rw [M.andThen_trace_notok (by intro a; rw [hres]; simp)] at he; exact ih e he
        | panic n => simp [ho, M.lift] at he

theorem threadName_documented (p : String) (b : Nat) :
    threadName (some p) b = p ++ "_" ++ ("join_" ++ Nat.repr b) ∧ threadName none b = "join_" ++ Nat.repr b := ⟨rfl, rfl⟩

/-- nesting: a spawn macro inside the thread of branch 2 of a macro called on `main` names its branch 0 thread … -/
example : threadName (some (threadName (some "main") 2)) 0 = "main_join_2_join_0" := by decide

theorem nodup_map_pair (l : List Nat) (k : Nat) (h : l.Nodup) : (l.map fun b => (b, k)).Nodup := by
  induction l with
  | nil => simp
  | cons x xs ih =>
    have h' := List.nodup_cons.mp h
    simp only [List.map_cons, List.nodup_cons, List.mem_map, Prod.mk.injEq, and_true, exists_eq_right]
    exact ⟨h'.1, ih h'.2⟩

/-- distinct branches, hence distinct threads -/
theorem thread_ids_distinct (sc : SpecCfg) (k : Nat) (vals : List (Option Value)) (vis : List (String × Value))
    (caps : List (List Value)) (hl : (sc.active k).length = caps.length) :
    ((asRun (stepThreads sc k vals vis ((sc.active k).zip caps))).map Prod.fst).Nodup := by
  have h1 : ((sc.active k).zip caps).map Prod.fst = sc.active k := by rw [List.map_fst_zip]; omega
  have : (asRun (stepThreads sc k vals vis ((sc.active k).zip caps))).map Prod.fst
      = (((sc.active k).zip caps).map Prod.fst).map fun b => (b, k) := by
    simp only [asRun, stepThreads, List.map_map]
    rfl
  rw [this, h1]
  exact nodup_map_pair _ k (active_nodup sc k)

/-- A step with a single active branch forks nothing: its chain runs on the calling thread. -/
theorem single_branch_on_caller (sc : SpecCfg) (k : Nat) (vals : List (Option Value)) (vis : List (String × Value))
    (act : List Nat) (caps : List (List Value)) (h1 : act.length ≤ 1) :
    specChains sc k vals vis act caps = specChainsSeq sc k vals vis (act.zip caps) := by
  simp only [specChains]
  have : decide (act.length > 1) = false := by simp; omega
  simp [this]

/-- a fork event never occurs in a sequentially evaluated step -/
theorem seq_step_no_fork (sc : SpecCfg) (k : Nat) (vals : List (Option Value)) (vis : List (String × Value))
    (bcs : List (Nat × List Value)) :
    ∀ e ∈ (specChainsSeq sc k vals vis bcs).trace, ∃ e', e = .ev e' := by
  induction bcs with
  | nil => simp [specChainsSeq, M.ret]
  | cons bc rest ih =>
    obtain ⟨b, caps⟩ := bc
    intro e he
    simp only [specChainsSeq] at he
    generalize hm : (⟨(chainEvents b k (sc.σ.chain b k (specPrev sc vals b k) caps vis)).map .ev,
      (sc.σ.chain b k (specPrev sc vals b k) caps vis).res.toRes⟩ : M Value) = m at he
    have hmt : ∀ e ∈ m.trace, ∃ e', e = .ev e' := by
      intro e he; rw [← hm] at he
      obtain ⟨e', _, rfl⟩ := List.mem_map.mp he
      exact ⟨e', rfl⟩
    cases hres : m.res with
    | ok v =>
      rw [(M.andThen_trace_ok hres).1] at he
      rcases List.mem_append.mp he with h | h
      · exact hmt e h
      · cases hres2 : (specChainsSeq sc k vals vis rest).res with
        | ok vs =>
          rw [(M.andThen_trace_ok (f := fun vs => M.ret (v :: vs)) hres2).1] at h
          simp only [M.ret, List.append_nil] at h
          exact ih e h
        | panic s => rw [M.andThen_trace_notok (by intro a; rw [hres2]; simp)] at h; exact ih e h
        | stuck => rw [M.andThen_trace_notok (by intro a; rw [hres2]; simp)] at h; exact ih e h
    | panic s => rw [M.andThen_trace_notok (by intro a; rw [hres]; simp)] at he; exact hmt e he
    | stuck => rw [M.andThen_trace_notok (by intro a; rw [hres]; simp)] at he; exact hmt e he

/-- **Barrier under every schedule** (`Lin`, Lemmas/Lin.lean): if the caller forks the threads of a step, joins
    all of them and then continues with `rest` (everything that follows: later steps, handler), then in *every*
    global order of events all events of this step's threads — an arbitrary interleaving `t1` of the bodies, each
    complete — come before every event of `rest`: the caller continues only after every thread of the step has
    finished, and nothing of step k+1 starts before every branch of step k has finished. -/
theorem step_barrier_all_schedules (fs : List (Tid × String × List Ev)) (rest : List MEv) (t : List TEv)
    (hnd : ((asRun fs).map Prod.fst).Nodup)
    (h : Lin (forksOf fs ++ joinsOf ((asRun fs).map Prod.fst) ++ rest) [] t) :
    ∃ t1 t2, t = t1 ++ t2 ∧ Shuffle (asRun fs) t1 ∧ Lin rest [] t2 :=
  barrier fs rest t hnd h

/-! ### every interleaving of the sibling threads is possible: none waits for a sibling -/

theorem lin_joins_of_shuffle (run : List (Tid × List Ev)) (t : List TEv) (h : Shuffle run t) :
    Lin (joinsOf (run.map Prod.fst)) run t := by
  induction h with
  | done run hall =>
    induction run with
    | nil => exact Lin.done []
    | cons x xs ih =>
      obtain ⟨⟨b, k⟩, body⟩ := x
      have hb : body = [] := hall ((b, k), body) (by simp)
      subst hb
      have := Lin.join b k (joinsOf (xs.map Prod.fst)) [] xs [] (ih (fun y hy => hall y (by simp [hy])))
      simpa [joinsOf] using this
  | step r1 r2 tid e es t' _ ih =>
    have hfst : (r1 ++ (tid, e :: es) :: r2).map Prod.fst = (r1 ++ (tid, es) :: r2).map Prod.fst := by simp
    rw [hfst]
    exact Lin.thr _ r1 r2 tid e es t' ih

theorem lin_forks (fs : List (Tid × String × List Ev)) (main : List MEv) (run : List (Tid × List Ev)) (t : List TEv)
    (h : Lin main (run ++ asRun fs) t) : Lin (forksOf fs ++ main) run t := by
  induction fs generalizing run with
  | nil => simpa [forksOf, asRun] using h
  | cons f fs ih =>
    obtain ⟨⟨b, k⟩, name, body⟩ := f
    simp only [forksOf, List.map_cons, List.cons_append]
    apply Lin.fork
    apply ih
    simpa [asRun, List.append_assoc] using h

/-- All n threads of a step are alive at the same time and none waits for a sibling: *every* interleaving of the
    thread bodies is a possible schedule of "fork all, join all" (all forks precede all joins on the caller). -/
theorem siblings_unordered (fs : List (Tid × String × List Ev)) (t1 : List TEv) (h : Shuffle (asRun fs) t1) :
    Lin (forksOf fs ++ joinsOf ((asRun fs).map Prod.fst)) [] t1 := by
  apply lin_forks
  simpa using lin_joins_of_shuffle (asRun fs) t1 h

end JoinModel.Props.C08
