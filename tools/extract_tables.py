#!/usr/bin/env python3
"""Translator: regenerates lean/JoinModel/Tables.lean from the current /repo sources.

Two sources, both the *current* tree:
  * anchored text patterns in the Rust files (token tests of the determiner table, operand arity,
    option loop, macro-kind table, name formats, handler keywords);
  * the answers of the running code (harness `tables`, which links /repo/join_impl): wrapper set,
    err set, emission templates, hoistable set, wrapper constructors.
Fails loudly (exit 3, message on stderr) when a pattern it relies on is gone: that is a broken tie.
Prints a JSON summary (hashes of the source regions) on stdout.
"""
import hashlib
import json
import os
import re
import subprocess
import sys

REPO = os.environ.get("VERIF_REPO", "/repo")
ROOT = os.path.dirname(os.path.dirname(os.path.abspath(__file__)))
OUT = os.path.join(ROOT, "lean", "JoinModel", "Tables.lean")
HARNESS = os.environ.get("VERIF_HARNESS", os.path.join(ROOT, ".build", "harness", "release", "jharness"))


class ExtractError(Exception):
    pass


def read(rel):
    with open(os.path.join(REPO, rel)) as f:
        return f.read()


def need(m, what):
    if not m:
        raise ExtractError("pattern not found: " + what)
    return m


COMB_LEAN = {
    "Map": ".map", "Dot": ".dot", "Filter": ".filter", "Inspect": ".inspect", "Then": ".then_",
    "AndThen": ".andThen", "Or": ".or_", "OrElse": ".orElse", "MapErr": ".mapErr",
    "Initial": ".initial", "Chain": ".chain", "Flatten": ".flatten", "Collect": ".collect",
    "Enumerate": ".enumerate", "Find": ".find", "Fold": ".fold", "TryFold": ".tryFold",
    "Unzip": ".unzip", "Zip": ".zip", "Partition": ".partition", "FilterMap": ".filterMap",
    "FindMap": ".findMap", "UNWRAP": ".unwrap", "Single": ".initial",
}


def comb(name):
    if name not in COMB_LEAN:
        raise ExtractError("unknown combinator/constructor name: " + name)
    return COMB_LEAN[name]


def lean_char(c):
    if c == "'":
        return "'\\''"
    if c == "\\":
        return "'\\\\'"
    return "'" + c + "'"


def lean_str(s):
    return '"' + s.replace("\\", "\\\\").replace('"', '\\"') + '"'


def tokpat(src):
    src = src.strip()
    m = re.fullmatch(r"Token!\[(\S+)\]", src)
    if m:
        return ".punct [" + ", ".join(lean_char(c) for c in m.group(1)) + "]"
    m = re.fullmatch(r"keywords::(\w+)", src)
    if m:
        return ".kw " + lean_str(m.group(1))
    if src == "syn::token::Bracket":
        return ".bracket"
    raise ExtractError("unknown token test: " + src)


def strip_comments(s):
    s = re.sub(r"//[^\n]*", "", s)
    return s


def cfg_not_full_fn(text, fn_name):
    """Body of the `#[cfg(not(feature = "full"))] fn fn_name` item."""
    m = need(re.search(r'#\[cfg\(not\(feature = "full"\)\)\]\s*(?:pub )?fn ' + fn_name + r"\b", text),
             "non-full fn " + fn_name)
    return brace_body(text, text.index("{", m.end()))


def brace_body(text, open_idx):
    assert text[open_idx] == "{"
    depth = 0
    for i in range(open_idx, len(text)):
        if text[i] == "{":
            depth += 1
        elif text[i] == "}":
            depth -= 1
            if depth == 0:
                return text[open_idx + 1:i]
    raise ExtractError("unbalanced braces")


def sha(s):
    return hashlib.sha256(s.encode()).hexdigest()[:16]


# ------------------------------------------------------------------------------------------------
# canonical token text -> Lean terms


def words_to_lean(words, holes):
    """words: canonical token words; holes: dict marker ident -> hole index (or None)."""
    out = []
    stack = []
    opens = {"(": ".paren", "{": ".brace", "[": ".bracket", "N(": ".none"}
    closes = {")", "}", "]", ")N"}
    cur = out
    for w in words:
        if w == "":
            continue
        if w in opens:
            stack.append((cur, opens[w]))
            cur = []
        elif w in closes:
            inner = cur
            cur, d = stack.pop()
            cur.append(("group", d, inner))
        elif w.startswith("i:"):
            name = w[2:]
            if holes is not None and name in holes:
                cur.append(("hole", holes[name]))
            else:
                cur.append(("tok", ".ident " + lean_str(name)))
        elif w.startswith("p:"):
            c = w[2]
            j = "true" if w.endswith("j") and len(w) == 4 else "false"
            cur.append(("tok", ".punct " + lean_char(c) + " " + j))
        elif w.startswith("l:"):
            cur.append(("tok", ".lit " + lean_str(unesc(w[2:]))))
        else:
            raise ExtractError("bad token word " + w)
    return out


def unesc(s):
    return (s.replace("%20", " ").replace("%09", "\t").replace("%0A", "\n")
            .replace("%0D", "\r").replace("%25", "%"))


def tmpl_lean(items):
    parts = []
    for it in items:
        if it[0] == "tok":
            parts.append(".tok (" + it[1] + ")")
        elif it[0] == "hole":
            parts.append(".hole " + str(it[1]))
        else:
            parts.append(".group " + it[1] + " " + tmpl_lean(it[2]))
    return "[" + ", ".join(parts) + "]"


def toks_lean(items):
    parts = []
    for it in items:
        if it[0] == "tok":
            parts.append("(" + it[1] + ")")
        elif it[0] == "group":
            parts.append("(.group " + it[1] + " " + toks_lean(it[2]) + ")")
        else:
            raise ExtractError("hole in plain tokens")
    return "[" + ", ".join(parts) + "]"


# ------------------------------------------------------------------------------------------------


def main():
    summary = {}
    L = []
    L.append("-- GENERATED by tools/extract_tables.py from the current /repo tree. Do not edit.")
    L.append("import JoinModel.TableTypes")
    L.append("namespace JoinModel.Tables")
    L.append("open JoinModel")
    L.append("")

    # ---- T1/T2: determiners (text) -------------------------------------------------------------
    parse_rs = strip_comments(read("join_impl/src/join/parse.rs"))
    m = need(re.search(r"define_group_determiners!\s*\{(.*?)\};", parse_rs, re.S), "define_group_determiners!")
    body = m.group(1)
    summary["T1_determiners_sha"] = sha(body)
    rows = []
    for row in [r.strip() for r in re.split(r",\s*\n", body) if r.strip()]:
        mm = need(re.fullmatch(r"(\w+)\s*=>\s*(.*?)\s*=>\s*(\d+)\s*,?", row, re.S), "determiner row: " + row)
        toks = [tokpat(t) for t in re.split(r",\s*(?=Token!|keywords::|syn::token)", mm.group(2))]
        rows.append((comb(mm.group(1)), toks, int(mm.group(3))))
    gd_rs = strip_comments(read("join_impl/src/chain/group/group_determiner.rs"))
    m = need(re.search(r"macro_rules!\s*define_group_determiners\s*\{(.*?)\n\}", gd_rs, re.S),
             "macro define_group_determiners")
    mac = m.group(1)
    summary["T1_macro_sha"] = sha(mac)
    need(re.search(r"\[\s*\$crate::define_determiner_with_no_group!\(Token!\[,\] => 0\),", mac),
         "leading comma determiner")
    need(re.search(r"new_const\(\s*None,\s*\$crate::handler::Handler::peek_handler as \*const \(\),\s*true,\s*0\s*\)\s*\]", mac),
         "trailing handler determiner")
    # token checker forms: 1, 2, 3 tokens use peek/peek2/peek3, more use fork+skip (same semantics in the model)
    need(re.search(r"input\.peek\(\$token1\) && input\.peek2\(\$token2\) && input\.peek3\(\$token3\)", gd_rs),
         "3-token checker")
    need(re.search(r"input\.peek\(\$token\) && \$crate::parse::utils::skip\(&input\)", gd_rs), "n-token checker")
    handler_rs = strip_comments(read("join_impl/src/handler.rs"))
    summary["T12_handler_sha"] = sha(handler_rs)
    hk = []
    for kw in re.findall(r"syn::custom_keyword!\((\w+)\);", handler_rs):
        need(re.search(r"input\.peek\(keywords::" + kw + r"\) && input\.peek2\(Token!\[=>\]\)", handler_rs),
             "peek of handler keyword " + kw)
        hk.append(kw)
    if sorted(hk) != ["and_then", "map", "then"]:
        raise ExtractError("handler keywords changed: %r" % hk)
    m = need(re.search(r"pub fn peek_handler\(.*?\{(.*?)\n    \}", handler_rs, re.S), "peek_handler")
    peeks = re.findall(r"Self::peek_(\w+)_handler\(input\)", m.group(1))
    if sorted(peeks) != ["and_then", "map", "then"]:
        raise ExtractError("peek_handler changed")
    L.append("def determiners : List DetRow := [")
    L.append("  ⟨none, [[.punct [',']]], 0⟩,")
    for c, toks, n in rows:
        L.append("  ⟨some %s, [[%s]], %d⟩," % (c, ", ".join(toks), n))
    alts = ", ".join("[.kw %s, .punct ['=', '>']]" % lean_str(k) for k in peeks)
    L.append("  ⟨none, [%s], 0⟩]" % alts)
    L.append("")
    m = need(re.search(r"DEFERRED_DETERMINER.*?define_determiner_with_no_group!\s*\{\s*(.*?)\s*=>\s*(\d+)\s*\}", parse_rs, re.S),
             "DEFERRED_DETERMINER")
    L.append("def deferredDet : DetRow := ⟨none, [[%s]], %s⟩" % (
        ", ".join(tokpat(t) for t in m.group(1).split(", ")), m.group(2)))
    m = need(re.search(r"WRAPPER_DETERMINER.*?define_determiner_with_no_group!\s*\{\s*(.*?)\s*=>\s*(\d+)\s*\}", parse_rs, re.S),
             "WRAPPER_DETERMINER")
    L.append("def wrapperDet : DetRow := ⟨none, [[%s]], %s⟩" % (
        ", ".join(tokpat(t) for t in m.group(1).split(", ")), m.group(2)))
    L.append("")

    # ---- T3: option loop (text) ----------------------------------------------------------------
    m = need(re.search(r"impl Parse for JoinInputDefault \{(.*)\n\}", parse_rs, re.S), "impl Parse for JoinInputDefault")
    pbody = m.group(1)
    summary["T3_parse_sha"] = sha(pbody)
    opts = re.findall(r"if input\.peek\(keywords::(\w+)\) \{\s*input\.parse::<keywords::\1>\(\)\?;\s*let content;\s*"
                      r"parenthesized!\(content in input\);\s*if join\.\1\.is_some\(\) \{\s*return Err\(input\.error\(\"\1 specified twice\"\)\);\s*\}\s*"
                      r"join\.\1 = Some\((content\.parse(?:::<LitBool>)?\(\)\?(?:\.value)?)\);", pbody)
    if len(opts) != 4:
        raise ExtractError("option blocks: expected 4, found %d" % len(opts))
    m_for = re.search(r"for _ in 0\.\.(\d+) \{\s*if input\.peek\(keywords::", pbody)
    m_loop = re.search(r"(?:loop|while [^{]*)\{\s*(?:[^{}]*?)if input\.peek\(keywords::", pbody)
    if m_for:
        rounds = "some %s" % m_for.group(1)
    elif m_loop:
        rounds = "none"
    else:
        raise ExtractError("option loop shape not recognised")
    L.append("/-- Option keywords in the order they are tried inside one round; `optionRounds = none`: rounds repeat")
    L.append("    until one parses nothing. -/")
    L.append("def optionOrder : List String := [%s]" % ", ".join(lean_str(o[0]) for o in opts))
    L.append("def optionRounds : Option Nat := " + rounds)
    L.append("")

    # ---- harness answers -----------------------------------------------------------------------
    try:
        ht = subprocess.run([HARNESS, "tables"], capture_output=True, text=True, check=True).stdout
    except Exception as e:  # noqa
        raise ExtractError("harness tables failed: %s" % e)
    hrows = [l.split("\t") for l in ht.splitlines() if not l.startswith("PROBE")]
    dets = [r for r in hrows if r[0] == "DET"]
    if len(dets) != len(rows) + 2:
        raise ExtractError("determiner count: text %d vs running code %d" % (len(rows) + 2, len(dets)))
    for (c, toks, n), d in zip(rows, dets[1:-1]):
        if comb(d[2]) != c or int(d[3]) != n:
            raise ExtractError("determiner row mismatch text/running code: %r vs %r" % ((c, n), d))
    combs = [r for r in hrows if r[0] == "COMB"]
    L.append("def canBeWrapper : List Comb := [%s]" % ", ".join(comb(r[1]) for r in combs if r[2] == "1"))
    L.append("def isErrExpr : List Comb := [%s]" % ", ".join(comb(r[1]) for r in combs if r[3] == "1"))
    L.append("")
    # T7 wrapper ctor
    wr = []
    placeholder = None
    for r in [r for r in hrows if r[0] == "WRAPCTOR"]:
        m = need(re.search(r"M (\w+) I W ,, X E :: (.*?) ,, M UNWRAP I U$", r[2]), "wrapper ctor dump " + r[2])
        wr.append((r[1], m.group(1)))
        if placeholder is None:
            placeholder = m.group(2)
        elif placeholder != m.group(2):
            raise ExtractError("wrapper placeholders differ")
    # operator source -> combinator via determiner rows: use combinator of the parsed structure; key rows by ctor
    L.append("/-- For each wrapper-capable operator (source text), the constructor the real parser builds for `op >>>`. -/")
    L.append("def wrapperCtorBySrc : List (String × Comb) := [%s]" % ", ".join(
        "(%s, %s)" % (lean_str(a), comb(b)) for a, b in wr))
    L.append("def wrapperPlaceholder : Toks := " + toks_lean(words_to_lean(placeholder.split(" "), None)))
    L.append("")
    # T8/T9 emission
    L.append("/-- (constructor, operand count) ↦ emitted tokens (`none`: `to_tokens` panics). -/")
    L.append("def emit : List (Comb × Nat × Option (List TmplTok)) := [")
    em = [r for r in hrows if r[0] == "EMIT"]
    holes = {"m0": 0, "m1": 1, "m2": 2, "m3": 3}
    el = []
    for r in em:
        if r[3] == "panic":
            t = "none"
        else:
            t = "some " + tmpl_lean(words_to_lean(r[3].split(" "), holes))
        el.append("  (%s, %s, %s)" % (comb(r[1]), r[2], t))
    L.append(",\n".join(el) + "]")
    seen = {}
    for r in em:
        seen.setdefault(r[1], (r[4], r[5]))
    L.append("def replaceable : List Comb := [%s]" % ", ".join(comb(k) for k, v in seen.items() if v[0] == "1"))
    L.append("def hasInner : List Comb := [%s]" % ", ".join(comb(k) for k, v in seen.items() if v[1] != "none"))
    L.append("")

    # ---- T6 arity (text) -----------------------------------------------------------------------
    ag = strip_comments(read("join_impl/src/chain/group/action_group.rs"))
    body = cfg_not_full_fn(ag, "parse_action_expr")
    summary["T6_arity_sha"] = sha(body)
    eg = strip_comments(read("join_impl/src/chain/group/expr_group.rs"))
    m = need(re.search(r"parse_n_or_empty_unit_fn!\s*\{(.*?)\}", eg, re.S), "parse_n_or_empty_unit_fn!")
    unitfn = {}
    for name, n, e in re.findall(r"(\w+)\s*=>\s*\[(\d+),\s*(true|false)\]", m.group(1)):
        unitfn[name] = (int(n), e)
    pe = strip_comments(read("join_impl/src/chain/expr/process_expr.rs"))
    m = need(re.search(r'#\[cfg\(not\(feature = "full"\)\)\]\s*#\[derive[^\]]*\]\s*pub enum ProcessExpr \{(.*?)\n\}', pe, re.S),
             "enum ProcessExpr (non-full)")
    summary["ProcessExpr_enum_sha"] = sha(m.group(1))
    ctor_kind = {}
    for name, rest in re.findall(r"^\s*(\w+)(\(.*?\))?,", m.group(1), re.M):
        ctor_kind[name] = "type" if "Type" in rest else "expr"
    ar = []
    for cname, fn, enum, ctor in re.findall(
            r"Combinator::(\w+)\s*=>\s*\{?\s*ExprGroup::(\w+)\(\s*(\w+)::(\w+),\s*unit_parser,\s*self,\s*input,?\s*\)", body):
        if fn not in unitfn:
            raise ExtractError("unknown unit fn " + fn)
        n, e = unitfn[fn]
        kind = ctor_kind.get(ctor, "expr") if enum == "ProcessExpr" else "expr"
        ar.append("  (%s, ⟨%s, %d, %s, .%s⟩)" % (comb(cname), comb(ctor), n, e, kind))
    if len(ar) != 23:
        raise ExtractError("arity rows: expected 23, found %d" % len(ar))
    L.append("def arity : List (Comb × Arity) := [")
    L.append(",\n".join(ar) + "]")
    L.append("")
    # T7 by combinator (text): to_wrapper_action_expr
    m = need(re.search(r"fn to_wrapper_action_expr\(self\).*?match self\.combinator \{(.*?)_ => return None", ag, re.S),
             "to_wrapper_action_expr")
    summary["T7_wrapper_sha"] = sha(m.group(1))
    wrows = re.findall(r"Combinator::(\w+)\s*=>\s*ActionExpr::\w+\(\w+::(\w+)\(\[return_val\]\)\)", m.group(1))
    L.append("def wrapperCtor : List (Comb × Comb) := [%s]" % ", ".join("(%s, %s)" % (comb(a), comb(b)) for a, b in wrows))
    L.append("")

    # ---- T10 macro kinds (text) ----------------------------------------------------------------
    lib = strip_comments(read("join/src/lib.rs"))
    fns = re.findall(r"#\[proc_macro\]\s*pub fn (\w+)\(input: TokenStream\) -> TokenStream \{(.*?)\n\}", lib, re.S)
    summary["T10_lib_sha"] = sha("".join(n + b for n, b in fns))
    mk = []
    bodies = set()
    for name, b in fns:
        mm = need(re.fullmatch(
            r"\s*let parsed = syn::parse_macro_input!\(input as JoinInputDefault\);\s*join_impl\(\s*parsed,\s*Config \{(.*?)\},?\s*\)\s*", b, re.S),
            "body of proc macro " + name)
        fields = dict(re.findall(r"(is_\w+):\s*(true|false)", mm.group(1)))
        if sorted(fields) != ["is_async", "is_spawn", "is_try"]:
            raise ExtractError("Config literal of " + name)
        mk.append("  ⟨%s, %s, %s, %s⟩" % (lean_str(name), fields["is_async"], fields["is_try"], fields["is_spawn"]))
        bodies.add(re.sub(r"(is_\w+):\s*(true|false)", r"\1: _", b))
    if len(bodies) != 1:
        raise ExtractError("proc macro bodies differ in more than the Config booleans")
    need(re.search(r"fn join_impl\(join: JoinInputDefault, config: Config\) -> TokenStream \{\s*TokenStream::from\(generate_join\(&join, config\)\)\s*\}", lib),
         "join_impl helper")
    L.append("def macroKinds : List MacroKindRow := [")
    L.append(",\n".join(mk) + "]")
    L.append("")

    # ---- T11 names (text) ----------------------------------------------------------------------
    nc = strip_comments(read("join_impl/src/join/name_constructors.rs"))
    nc = nc.split("#[cfg(test)]")[0]
    summary["T11_names_sha"] = sha(nc)
    fmt = dict(re.findall(r'pub fn (construct_\w+)\([^)]*\) -> Ident \{\s*format_ident!\(\s*"([^"]*)"', nc))
    fixed = dict(re.findall(r'pub fn (construct_\w+)\(\) -> Ident \{\s*Ident::new\("([^"]*)", Span::call_site\(\)\)', nc))
    want_fmt = ["construct_var_name", "construct_step_results_name", "construct_result_name",
                "construct_thread_builder_name", "construct_expr_wrapper_name"]
    want_fixed = ["construct_inspect_fn_name", "construct_spawn_tokio_fn_name", "construct_results_name",
                  "construct_handler_name", "construct_internal_value_name", "construct_thread_builder_fn_name"]
    for w in want_fmt:
        if w not in fmt:
            raise ExtractError("name constructor " + w)
    for w in want_fixed:
        if w not in fixed:
            raise ExtractError("name constructor " + w)

    def pieces(f):
        return "[" + ", ".join(lean_str(p) for p in f.split("{}")) + "]"
    L.append("/-- Format pieces: the name is piece₀ ++ repr i₀ ++ piece₁ ++ repr i₁ ++ … -/")
    L.append("def fmtVar : List String := " + pieces(fmt["construct_var_name"]))
    L.append("def fmtStepResults : List String := " + pieces(fmt["construct_step_results_name"]))
    L.append("def fmtResult : List String := " + pieces(fmt["construct_result_name"]))
    L.append("def fmtThreadBuilder : List String := " + pieces(fmt["construct_thread_builder_name"]))
    L.append("def fmtExprWrapper : List String := " + pieces(fmt["construct_expr_wrapper_name"]))
    L.append("def nameInspect : String := " + lean_str(fixed["construct_inspect_fn_name"]))
    L.append("def nameSpawnTokio : String := " + lean_str(fixed["construct_spawn_tokio_fn_name"]))
    L.append("def nameResults : String := " + lean_str(fixed["construct_results_name"]))
    L.append("def nameHandler : String := " + lean_str(fixed["construct_handler_name"]))
    L.append("def nameValue : String := " + lean_str(fixed["construct_internal_value_name"]))
    L.append("def nameThreadBuilderFn : String := " + lean_str(fixed["construct_thread_builder_fn_name"]))
    L.append("")
    L.append("end JoinModel.Tables")
    text = "\n".join(L) + "\n"
    old = None
    if os.path.exists(OUT):
        with open(OUT) as f:
            old = f.read()
    if old != text:
        with open(OUT, "w") as f:
            f.write(text)
    summary["tables_lean_sha"] = sha(text)
    summary["changed"] = old != text
    # keep the harness answers for the probe comparison done by the Lean driver
    with open(os.path.join(ROOT, ".build", "harness_tables.txt"), "w") as f:
        f.write(ht)
    print(json.dumps(summary))


if __name__ == "__main__":
    try:
        main()
    except ExtractError as e:
        sys.stderr.write("extract_tables: %s\n" % e)
        sys.exit(3)
