/-
  C06 — try macros: a failed step aborts everything after it.
  Reference loop + bridge (`generated_eq_reference`).  Every event carries its step (`MEv.step`): block
  captures, chain starts/ends, callbacks inside chains, forks/joins of branch threads.
-/
import JoinModel.Props.Common
import JoinModel.AsyncTry
namespace JoinModel.Props.C06
open JoinModel JoinModel.Props

/-- When the loop of a try macro ends in failure there is a failing step `j` such that nothing that belongs
    to a later step appears in the trace — no capture, chain, callback, fork — and every branch active in
    step `j` ran its chain of that step to the end. -/
theorem no_later_step_after_failure (σ : World) (parent : Option String) (p : Input) (kind : Kind)
    (htry : kind.isTry = true) (v : Value) (h : (loopOf σ parent p kind).res = .ok (.failed v)) :
    ∃ b j, (b, j, v) ∈ chainEnds (loopOf σ parent p kind).trace ∧
      (∀ e ∈ (loopOf σ parent p kind).trace, ∀ s, e.step = some s → s ≤ j) ∧
      (∀ b' ∈ (cfgFor σ parent p kind).active j, ∃ v', (b', j, v') ∈ chainEnds (loopOf σ parent p kind).trace) := by
  have := specLoop_try (cfgFor σ parent p kind) htry _ 0 _ (by simp [SpecCfg.n]) (allSucc_init _) (.failed v) h
  obtain ⟨_, b, j, _, h3, _, h5, h6⟩ := this
  exact ⟨b, j, h3, h5, h6⟩

/-- A `map` / `and_then` handler is not called after a failure: the failing value is the macro's value and no
    event is added. -/
theorem handler_not_called_on_failure (sc : SpecCfg) (h : Option HKind) (v : Value) :
    specHandle sc h (.failed v) = M.ret v := by
  cases h with
  | none => rfl
  | some k => cases k <;> rfl

/-- The whole run of a failing try macro with a handler: the trace is "handler definition, then the loop";
    in particular it contains no `handlerCall` event. -/
theorem failing_run_trace (σ : World) (parent : Option String) (p : Input) (kind : Kind) (v : Value)
    (hd : σ.handlerDef = .ok ()) (h : (loopOf σ parent p kind).res = .ok (.failed v)) :
    (specRun σ parent p kind).res = .ok v ∧
    (specRun σ parent p kind).trace = (handlerDefOf σ p).trace ++ (loopOf σ parent p kind).trace := by
  rw [specRun_eq]
  have hdr : (handlerDefOf σ p).res = .ok () := by
    unfold handlerDefOf
    cases p.handler <;> simp [M.ret, M.tell, M.andThen, M.lift, hd, UR.toRes]
  obtain ⟨t1, r1⟩ := M.andThen_trace_ok (f := fun _ => (loopOf σ parent p kind).andThen fun f =>
    specHandle (cfgFor σ parent p kind) (p.handler.map Prod.fst) f) hdr
  obtain ⟨t2, r2⟩ := M.andThen_trace_ok (f := fun f =>
    specHandle (cfgFor σ parent p kind) (p.handler.map Prod.fst) f) h
  rw [t1, r1, t2, r2, handler_not_called_on_failure]
  simp [M.ret]

/-! ### the async try macros (canonical schedule) -/

/-- the step loop of an async try invocation -/
def loopOfAT (σ : World) (parent : Option String) (p : Input) (kind : Kind) : M Fin :=
  specLoopAT (cfgFor σ parent p kind) ((cfgFor σ parent p kind).maxDepth - 1) 0
    (List.replicate (cfgFor σ parent p kind).n none)

/-- `try_join_async!` & co.: the generated code is the async-try reference (events and result) -/
theorem async_try_generated (σ : World) (parent : Option String) (p : Input) (kind : Kind) (code : Code)
    (hs : SupportedAT p kind) (hgen : gen p kind = .ok code) :
    evalCode σ parent code = specRunAT σ parent p kind := async_try_refines σ parent p kind code hs hgen

/-- **C05/C06 for the async try macros**: when the loop fails with `v`, `v` is not a success, it is — unchanged — what a
    chain returned, and the end of that chain is the *last* event of the loop: nothing of a later step is evaluated and
    no chain behind it in its own step runs (`try_join!` returns at once); by `handler_not_called_on_failure` no handler
    is called either. -/
theorem async_try_stops_at_failure (σ : World) (parent : Option String) (p : Input) (kind : Kind) (v : Value)
    (h : (loopOfAT σ parent p kind).res = .ok (.failed v)) :
    v.isSucc = false ∧ ∃ pre b j, (loopOfAT σ parent p kind).trace = pre ++ [.ev (.chainEnd b j v)] := by
  obtain ⟨h1, pre, b, j, h2, _⟩ := specLoopAT_failed _ _ _ _ v h
  exact ⟨h1, pre, b, j, h2⟩

/-- on success the loop returns one payload per branch -/
theorem async_try_success_arity (σ : World) (parent : Option String) (p : Input) (kind : Kind) (code : Code)
    (hs : SupportedAT p kind) (ps : List Value) (h : (loopOfAT σ parent p kind).res = .ok (.vals ps)) :
    ps.length = p.branches.length := by
  have hact : ∀ k, ((cfgFor σ parent p kind).active k).Nodup ∧
      ∀ b ∈ (cfgFor σ parent p kind).active k, b < (cfgFor σ parent p kind).n := by
    intro k
    refine ⟨List.Nodup.sublist List.filter_sublist List.nodup_range, fun b hb => ?_⟩
    exact List.mem_range.mp (List.mem_filter.mp hb).1
  have := specLoopAT_post (cfgFor σ parent p kind) hs.isTry _ _ _ (.vals ps) (allSucc_init' _) hact (by simp) h
  simpa [cfgFor, SpecCfg.n] using this

end JoinModel.Props.C06
