/-
  Schedules of the thread-spawning macros.  The evaluators produce the calling thread's program order with
  forks carrying the complete event list of their thread (`MEv`).  `Lin main run t` says that `t` is one
  possible global order of events: the caller's events in program order, each forked thread's events in its
  own order anywhere after its fork, a join only once the joined thread has finished.

  `barrier`: for the shape every step has — fork all active branches, join them all, continue — every schedule
  is "some interleaving of exactly these threads' bodies, then a schedule of everything after the joins".
-/
import JoinModel.Sem
namespace JoinModel

abbrev Tid := Nat × Nat        -- (branch, step)

/-- an event in a global order: which thread (`none` = the calling thread), what -/
structure TEv where
  tid : Option Tid
  ev : Ev
  deriving DecidableEq, Repr

inductive Lin : List MEv → List (Tid × List Ev) → List TEv → Prop
  /-- the caller is done; threads that were never joined (the caller panicked) are simply left behind -/
  | done (run : List (Tid × List Ev)) : Lin [] run []
  | mainEv (e : Ev) (rest : List MEv) (run : List (Tid × List Ev)) (t : List TEv) :
      Lin rest run t → Lin (.ev e :: rest) run (⟨none, e⟩ :: t)
  | fork (b k : Nat) (name : String) (body : List Ev) (rest : List MEv) (run : List (Tid × List Ev)) (t : List TEv) :
      Lin rest (run ++ [((b, k), body)]) t → Lin (.fork b k name body :: rest) run t
  | thr (main : List MEv) (r1 r2 : List (Tid × List Ev)) (tid : Tid) (e : Ev) (es : List Ev) (t : List TEv) :
      Lin main (r1 ++ (tid, es) :: r2) t → Lin main (r1 ++ (tid, e :: es) :: r2) (⟨some tid, e⟩ :: t)
  | join (b k : Nat) (rest : List MEv) (r1 r2 : List (Tid × List Ev)) (t : List TEv) :
      Lin rest (r1 ++ r2) t → Lin (.join b k :: rest) (r1 ++ ((b, k), []) :: r2) t

/-- `t` interleaves exactly the remaining bodies of `run` (each in its own order, all to the end) -/
inductive Shuffle : List (Tid × List Ev) → List TEv → Prop
  | done (run : List (Tid × List Ev)) : (∀ x ∈ run, x.2 = []) → Shuffle run []
  | step (r1 r2 : List (Tid × List Ev)) (tid : Tid) (e : Ev) (es : List Ev) (t : List TEv) :
      Shuffle (r1 ++ (tid, es) :: r2) t → Shuffle (r1 ++ (tid, e :: es) :: r2) (⟨some tid, e⟩ :: t)

def forksOf (fs : List (Tid × String × List Ev)) : List MEv := fs.map fun f => .fork f.1.1 f.1.2 f.2.1 f.2.2
def joinsOf (js : List Tid) : List MEv := js.map fun j => .join j.1 j.2
def asRun (fs : List (Tid × String × List Ev)) : List (Tid × List Ev) := fs.map fun f => (f.1, f.2.2)

/-- a thread that has already finished can be added to a shuffle's thread list -/
theorem Shuffle.add_finished (run : List (Tid × List Ev)) (tid : Tid) (t : List TEv) (h : Shuffle run t) :
    Shuffle ((tid, []) :: run) t := by
  induction h with
  | done run hall =>
    apply Shuffle.done
    intro x hx
    rcases List.mem_cons.mp hx with rfl | hx
    · rfl
    · exact hall x hx
  | step q1 q2 tid' e es t' _ ih =>
    exact Shuffle.step ((tid, []) :: q1) q2 tid' e es t' ih

theorem forksOf_eq_nil {fs : List (Tid × String × List Ev)} (h : forksOf fs = []) : fs = [] := by
  cases fs <;> simp_all [forksOf]

/-- **Barrier.**  If the caller forks the threads `fs`, then joins every thread that is running (those already
    running, `run`, and the new ones, in that order), then continues with `rest`: every schedule `t` splits into
    an interleaving `t1` of exactly those threads' (remaining) bodies, followed by a schedule `t2` of `rest`
    with no thread left.  So no event of `rest` — the later steps — precedes any event of these threads. -/
theorem barrier_gen (main : List MEv) (run : List (Tid × List Ev)) (t : List TEv) (h : Lin main run t) :
    ∀ (fs : List (Tid × String × List Ev)) (rest : List MEv),
      main = forksOf fs ++ joinsOf ((run ++ asRun fs).map Prod.fst) ++ rest →
      ((run ++ asRun fs).map Prod.fst).Nodup →
      ∃ t1 t2, t = t1 ++ t2 ∧ Shuffle (run ++ asRun fs) t1 ∧ Lin rest [] t2 := by
  induction h with
  | done run =>
    intro fs rest hm _
    have h1 : forksOf fs = [] := by
      cases hf : forksOf fs with
      | nil => rfl
      | cons x xs => rw [hf] at hm; simp at hm
    have hfs := forksOf_eq_nil h1
    subst hfs
    simp only [forksOf, List.map_nil, List.nil_append, asRun, List.append_nil] at hm
    have hrun : run = [] := by
      cases run with
      | nil => rfl
      | cons x xs => simp [joinsOf] at hm
    subst hrun
    have hrest : rest = [] := by simpa [joinsOf] using hm.symm
    subst hrest
    exact ⟨[], [], rfl, Shuffle.done _ (by simp [asRun]), Lin.done []⟩
  | mainEv e rest' run t' hsub _ =>
    intro fs rest hm _
    have hfs : fs = [] := by
      cases fs with
      | nil => rfl
      | cons f fs' => simp [forksOf] at hm
    subst hfs
    simp only [forksOf, List.map_nil, List.nil_append, asRun, List.append_nil] at hm
    have hrun : run = [] := by
      cases run with
      | nil => rfl
      | cons x xs => simp [joinsOf] at hm
    subst hrun
    simp only [joinsOf, List.map_nil, List.nil_append] at hm
    refine ⟨[], _, rfl, Shuffle.done _ (by simp [asRun]), ?_⟩
    rw [← hm]
    exact Lin.mainEv e rest' [] t' hsub
  | fork b k name body rest' run t' hsub ih =>
    intro fs rest hm hnd
    cases fs with
    | nil =>
      simp only [forksOf, List.map_nil, List.nil_append, asRun, List.append_nil] at hm hnd
      cases run with
      | nil =>
        simp only [joinsOf, List.map_nil, List.nil_append] at hm
        refine ⟨[], _, rfl, Shuffle.done _ (by simp [asRun]), ?_⟩
        rw [← hm]
        exact Lin.fork b k name body rest' [] t' hsub
      | cons x xs => simp [joinsOf] at hm
    | cons f fs' =>
      obtain ⟨⟨fb, fk⟩, fname, fbody⟩ := f
      simp only [forksOf, List.map_cons, List.cons_append, List.cons.injEq, MEv.fork.injEq] at hm
      obtain ⟨⟨rfl, rfl, rfl, rfl⟩, hm⟩ := hm
      have hrun' : (run ++ [((b, k), body)]) ++ asRun fs' = run ++ asRun (((b, k), name, body) :: fs') := by
        simp [asRun, List.append_assoc]
      obtain ⟨t1, t2, h1, h2, h3⟩ := ih fs' rest (by rw [hrun']; exact hm) (by rw [hrun']; exact hnd)
      exact ⟨t1, t2, h1, by rw [← hrun']; exact h2, h3⟩
  | thr main r1 r2 tid e es t' _ ih =>
    intro fs rest hm hnd
    have hfst : ((r1 ++ (tid, es) :: r2) ++ asRun fs).map Prod.fst = ((r1 ++ (tid, e :: es) :: r2) ++ asRun fs).map Prod.fst := by
      simp
    obtain ⟨t1, t2, h1, h2, h3⟩ := ih fs rest (by rw [hfst]; exact hm) (by rw [hfst]; exact hnd)
    refine ⟨⟨some tid, e⟩ :: t1, t2, by rw [h1]; rfl, ?_, h3⟩
    have := Shuffle.step r1 (r2 ++ asRun fs) tid e es t1 (by simpa [List.append_assoc] using h2)
    simpa [List.append_assoc] using this
  | join b k rest' r1 r2 t' _ ih =>
    intro fs rest hm hnd
    have hfs : fs = [] := by
      cases fs with
      | nil => rfl
      | cons f fs' => simp [forksOf] at hm
    subst hfs
    simp only [forksOf, List.map_nil, List.nil_append, asRun, List.append_nil] at hm hnd
    -- the joined thread is the first running one
    have hr1 : r1 = [] := by
      cases r1 with
      | nil => rfl
      | cons x xs =>
        exfalso
        simp only [List.cons_append, List.map_cons, joinsOf, List.cons.injEq, MEv.join.injEq] at hm
        obtain ⟨⟨hb, hk⟩, _⟩ := hm
        simp only [List.cons_append, List.map_cons, List.map_append, List.nodup_cons, List.mem_append,
          List.mem_map, List.mem_cons] at hnd
        apply hnd.1
        refine Or.inr (Or.inl ?_)
        rw [Prod.ext_iff]; exact ⟨hb.symm, hk.symm⟩
    subst hr1
    simp only [List.nil_append, List.map_cons, joinsOf, List.cons_append, List.cons.injEq, true_and] at hm hnd
    obtain ⟨t1, t2, h1, h2, h3⟩ := ih [] rest (by simpa [forksOf, asRun, joinsOf] using hm)
      (by simpa [asRun] using (List.nodup_cons.mp hnd).2)
    refine ⟨t1, t2, h1, ?_, h3⟩
    simp only [asRun, List.map_nil, List.append_nil] at h2 ⊢
    exact Shuffle.add_finished _ (b, k) t1 h2

/-- The barrier for a step that starts with no thread running. -/
theorem barrier (fs : List (Tid × String × List Ev)) (rest : List MEv) (t : List TEv)
    (hnd : ((asRun fs).map Prod.fst).Nodup)
    (h : Lin (forksOf fs ++ joinsOf ((asRun fs).map Prod.fst) ++ rest) [] t) :
    ∃ t1 t2, t = t1 ++ t2 ∧ Shuffle (asRun fs) t1 ∧ Lin rest [] t2 := by
  have := barrier_gen _ [] t h fs rest (by simp) (by simpa using hnd)
  simpa using this

end JoinModel
