//! syn oracle of one macro input (filled in with the parser correspondence).
use proc_macro2::TokenStream;

pub fn oracle(_ts: TokenStream) -> String {
    "-".to_string()
}
